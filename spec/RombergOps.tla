----------------------------------- MODULE RombergOps ---------------------------------
(* Romberg extrapolation on dyadic refinement trees (sparseSpACE/Extrapolation.py).                        *)
(*                                                                                                         *)
(* The interval is the integer lattice 0..N, N = 2^M.  A tree is the set `pts` of its inner points; it is   *)
(* valid iff it is closed under "parent".  Every quadrature weight of the library is a rational whose        *)
(* denominator divides Q = 2*N*D, D = (4-1)(4^2-1)...(4^M-1); weights are kept as integers in units 1/Q     *)
(* (per lattice unit), so all identities of property C11 are exact integer identities TLC can evaluate:      *)
(*   sum of weights = N*Q, first centred moment = 0, centred moments up to 2m+1 on the complete tree.       *)
EXTENDS Integers, Sequences, FiniteSets, TLC
CONSTANTS M,          \* lattice depth, N = 2^M
          GROUPING,   \* "UNIT" | "GROUPED" | "OPT"
          SLICEV,     \* "ROMBERG" | "TRAPEZOID"
          POLY        \* TRUE: also check polynomial exactness on complete trees (needs M <= 3, 32-bit integers)
N == 2^M
RECURSIVE P(_)
P(t) == IF t = 0 THEN 1 ELSE (4^t - 1) * P(t - 1)
D == P(M)
Q == 2 * N * D
Abs(x) == IF x < 0 THEN -x ELSE x
Max(a, b) == IF a > b THEN a ELSE b
(* ---------------------------------------------------------------- tree ------------------------------ *)
TZ(x) == CHOOSE t \in 0..M : x % (2^t) = 0 /\ (t = M \/ x % (2^(t + 1)) # 0)
Lev(x) == IF x = 0 \/ x = N THEN 0 ELSE M - TZ(x)
H(l) == N \div (2^l)                                  \* step width of level l
ParentOf(x) == LET l == Lev(x) IN IF Lev(x - H(l)) = l - 1 THEN x - H(l) ELSE x + H(l)     \* for Lev(x) > 1
Children(x) == IF Lev(x) = M THEN {} ELSE {x - H(Lev(x) + 1), x + H(Lev(x) + 1)}
Closed(S) == \A x \in S : Lev(x) = 1 \/ ParentOf(x) \in S
Sibling(x) == 2 * ParentOf(x) - x
ForceFull(S) == S \cup {Sibling(x) : x \in {y \in S : Lev(y) > 1}}
IsFull(S) == \A x \in S : Cardinality(Children(x) \cap S) \in {0, 2}
MaxLev(S) == IF S = {} THEN 0 ELSE CHOOSE l \in 1..M : (\E x \in S : Lev(x) = l) /\ \A x \in S : Lev(x) <= l
Complete(m) == {x \in 1..(N - 1) : Lev(x) <= m}
RECURSIVE SortedSeq(_)
SortedSeq(S) == IF S = {} THEN <<>> ELSE LET mn == CHOOSE x \in S : \A y \in S : x <= y IN <<mn>> \o SortedSeq(S \ {mn})
Grid(S) == SortedSeq(S \cup {0, N})
(* ---------------------------------------------------------------- Romberg coefficients -------------- *)
(* c(m,j) = prod_{i # j} h_i^2 / (h_i^2 - h_j^2) = (-1)^(m-j) 4^(j(j+1)/2) / (P(j) P(m-j));  CQ = c * D     *)
CQ(m, j) == (IF (m - j) % 2 = 0 THEN 1 ELSE -1) * 4^((j * (j + 1)) \div 2) * (D \div (P(j) * P(m - j)))
ASSUME \A m \in 0..M : \A j \in 0..m : D % (P(j) * P(m - j)) = 0
RECURSIVE SumTo(_, _, _)
SumTo(F(_), a, b) == IF a > b THEN 0 ELSE F(a) + SumTo(F, a + 1, b)
ASSUME \A m \in 0..M : SumTo(LAMBDA j : CQ(m, j), 0, m) = D                                 \* coefficients sum to one
ASSUME \A m \in 1..M : \A k \in 1..m : (M <= 3 \/ k <= 2) => SumTo(LAMBDA j : CQ(m, j) * 4^((m - j) * k), 0, m) = 0   \* h^2k terms cancel
(* ---------------------------------------------------------------- slices and containers ------------- *)
(* unit slice [xl, xr] of maximal level m: level-j term integrates the linear interpolant between the       *)
(* ends sl < sr of the level-j dyadic interval containing the slice                                         *)
SL(xl, j) == (xl \div H(j)) * H(j)
SliceTerm(xl, xr, m, j, x) ==
    LET sl == SL(xl, j)  sr == sl + H(j)  wd == xr - xl IN
    (IF x = sl THEN wd * (2 * sr - xl - xr) * (2^j) * CQ(m, j) ELSE 0) + (IF x = sr THEN wd * (xl + xr - 2 * sl) * (2^j) * CQ(m, j) ELSE 0)
SliceW(xl, xr, x) ==
    IF SLICEV = "TRAPEZOID" THEN (IF x = xl \/ x = xr THEN (xr - xl) * N * D ELSE 0)
    ELSE LET m == Max(Lev(xl), Lev(xr)) IN SumTo(LAMBDA j : SliceTerm(xl, xr, m, j, x), 0, m)
(* container of 2^K equal slices on [cl, cr]: classical Romberg with the normalised levels                 *)
Log2(n) == CHOOSE k \in 0..M : 2^k = n
ContW(cl, cr, size, x) ==
    LET K == Log2(size)  wd == (cr - cl) \div size  idx == (x - cl) \div wd IN
    IF x < cl \/ x > cr \/ (x - cl) % wd # 0 THEN 0
    ELSE IF x = cl \/ x = cr THEN SumTo(LAMBDA j : ((cr - cl) \div (2^j)) * N * CQ(K, j), 0, K)
    ELSE LET tz == CHOOSE t \in 0..K : idx % (2^t) = 0 /\ idx % (2^(t + 1)) # 0
             l == K - tz
         IN  SumTo(LAMBDA j : 2 * ((cr - cl) \div (2^j)) * N * CQ(K, j), l, K)
IsPow2(n) == \E k \in 0..M : n = 2^k
Floor2(n) == CHOOSE p \in {2^k : k \in 0..M} : p <= n /\ 2 * p > n
RECURSIVE Split(_, _)
Split(s, n) == IF n = 0 THEN <<>>
               ELSE IF IsPow2(n) THEN << <<s, n>> >>
               ELSE IF GROUPING = "GROUPED" THEN [k \in 1..n |-> <<s + k - 1, 1>>]
               ELSE LET p == Floor2(n) IN << <<s, p>> >> \o Split(s + p, n - p)
RECURSIVE RunEnd(_, _, _)
RunEnd(g, k, wd) == IF k <= Len(g) - 1 /\ g[k + 1] - g[k] = wd THEN RunEnd(g, k + 1, wd) ELSE k
RECURSIVE Containers(_, _)
Containers(g, i) == IF i > Len(g) - 1 THEN <<>>
                    ELSE LET e == IF GROUPING = "UNIT" THEN i + 1 ELSE RunEnd(g, i + 1, g[i + 1] - g[i])
                         IN  Split(i, e - i) \o Containers(g, e)
Weights(S) ==
    LET g == Grid(S)  cs == Containers(g, 1) IN
    [x \in S \cup {0, N} |->
        SumTo(LAMBDA c : IF cs[c][2] = 1 THEN SliceW(g[cs[c][1]], g[cs[c][1] + 1], x)
                         ELSE ContW(g[cs[c][1]], g[cs[c][1] + cs[c][2]], cs[c][2], x), 1, Len(cs))]
(* ---------------------------------------------------------------- balanced extrapolation ------------ *)
(* midpoint rules on the leaves-or-level-i nodes, i = 1..m, extrapolated with a_k = -1/(4^k - 1);           *)
(* U(j, i, x) = tableau entry in units 1/P(j)                                                               *)
RECURSIVE U(_, _, _, _)
U(S, j, i, x) == IF j = 0 THEN (IF x \in S /\ Lev(x) <= i /\ (Lev(x) = i \/ Children(x) \cap S = {}) THEN 2 * H(Lev(x)) ELSE 0)
                 ELSE 4^j * U(S, j - 1, i, x) - U(S, j - 1, i - 1, x)
BalWeights(S) == IF S = {} \/ ~IsFull(S) THEN <<>>
                 ELSE LET m == MaxLev(S) IN [x \in S \cup {0, N} |-> U(S, m - 1, m, x)]
(* ---------------------------------------------------------------- moments ---------------------------- *)
Pw(a, k) == IF k = 0 THEN 1 ELSE a^k
Moment(f, k) == SumTo(LAMBDA x : IF x \in DOMAIN f THEN f[x] * Pw(x - N \div 2, k) ELSE 0, 0, N)
ExactMoment(k, unit) == IF k % 2 = 1 THEN 0 ELSE (2 * unit * Pw(N \div 2, k + 1)) \div (k + 1)
=====================================================================================
