--------------------------------- MODULE DriverOps ---------------------------------
(* Stop rule of the adaptive loop (spatiallyAdaptiveBase.continue_adaptive_refinement):   *)
(* an evaluation is <<errOK, np>> with errOK = (error <= tolerance) and np = point count;  *)
(* limits are [minE, maxE] with maxE = -1 for "no maximum".                                *)
EXTENDS Integers, Sequences, FiniteSets, TLC
MustStop(ev, lim) == (ev[1] /\ ev[2] >= lim.minE) \/ (lim.maxE >= 0 /\ ev[2] > lim.maxE)
=====================================================================================
