--------------------------------- MODULE DriverOps ---------------------------------
(* Stop rule of the adaptive loop (spatiallyAdaptiveBase.continue_adaptive_refinement):   *)
(* an evaluation is <<errOK, np>> with errOK = (error <= tolerance) and np = point count;  *)
(* limits are [minE, maxE] with maxE = -1 for "no maximum".                                *)
EXTENDS Integers, Sequences, FiniteSets, TLC
MustStop(ev, lim) == (ev[1] /\ ev[2] >= lim.minE) \/ (lim.maxE >= 0 /\ ev[2] > lim.maxE)
(* single_step mode: once a refinement has happened in this call (last = point count before that refinement, -1 = none yet) *)
(* the maximum is replaced by last + 1, so the run stops at the first evaluation that shows at least two more points          *)
EffLim(lim, single, last) == IF single /\ last >= 0 THEN [lim EXCEPT !.maxE = last + 1] ELSE lim
=====================================================================================
