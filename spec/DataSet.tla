----------------------------------- MODULE DataSet -----------------------------------
(* Scaling bookkeeping and sample-moving operations of DEMachineLearning.DataSet (1-D      *)
(* samples with exact rational positions; the implementation is multi-dimensional, every     *)
(* dimension behaves like this model).  Value semantics: data sets do not share state.       *)
(*   a data set = [xs: Seq(rational), ls: Seq(label), scaled, rng: <<lo, hi>> or <<>>,        *)
(*                 base: Seq(rational)]                                                      *)
(* base = the samples as they were before the first scaling since the last overriding        *)
(* rescale (what revert_scaling has to restore); derived sets inherit the corresponding       *)
(* part of base.  Registers r1 (the set under test), r2 / r3 (derived pieces).               *)
EXTENDS Rational, Sequences, FiniteSets
CONSTANTS INITS, MAXSTEPS
VARIABLES r1, r2, r3, refused, steps
vars == <<r1, r2, r3, refused, steps>>

Empty == [xs |-> <<>>, ls |-> <<>>, scaled |-> FALSE, rng |-> <<>>, base |-> <<>>]
SetOf(s) == {s[i] : i \in 1..Len(s)}
MapSeq(s, f(_)) == [i \in 1..Len(s) |-> f(s[i])]
SubSeqIdx(s, I) == LET RECURSIVE go(_)
                       go(i) == IF i > Len(s) THEN <<>> ELSE (IF i \in I THEN <<s[i]>> ELSE <<>>) \o go(i + 1)
                   IN  go(1)
Pick(d, I) == [d EXCEPT !.xs = SubSeqIdx(d.xs, I), !.ls = SubSeqIdx(d.ls, I), !.base = SubSeqIdx(d.base, I)]

Init == /\ r1 \in INITS /\ r2 = Empty /\ r3 = Empty /\ refused = FALSE /\ steps = 0

(* affine rescaling of the current samples; a first (or overriding) scaling re-bases *)
Rebase(d, override) == IF ~d.scaled \/ override THEN [d EXCEPT !.base = d.xs] ELSE d
ScaleRange(d, lo, hi, override) ==
    LET e == Rebase(d, override)
        mn == RMinOf(SetOf(e.xs))
        mx == RMaxOf(SetOf(e.xs))
        w  == IF mn = mx THEN Q(1) ELSE RSub(mx, mn)      \* constant column: width treated as 1
        f(x) == RAdd(lo, RMul(RSub(x, mn), RDiv(RSub(hi, lo), w)))
    IN  [e EXCEPT !.xs = MapSeq(e.xs, f), !.scaled = TRUE, !.rng = <<lo, hi>>]
ScaleFactor(d, fac, override) ==
    LET e == Rebase(d, override)
        xs2 == MapSeq(e.xs, LAMBDA x : RMul(x, fac))
    IN  [e EXCEPT !.xs = xs2, !.scaled = TRUE, !.rng = <<RMinOf(SetOf(xs2)), RMaxOf(SetOf(xs2))>>]
Shift(d, t, override) ==
    LET e == Rebase(d, override)
        xs2 == MapSeq(e.xs, LAMBDA x : RAdd(x, t))
    IN  [e EXCEPT !.xs = xs2, !.scaled = TRUE, !.rng = <<RMinOf(SetOf(xs2)), RMaxOf(SetOf(xs2))>>]
Revert(d) == [d EXCEPT !.xs = d.base, !.scaled = FALSE, !.rng = <<>>]

Step == steps < MAXSTEPS /\ steps' = steps + 1
OpScaleRange(lo, hi, ov) == Step /\ r1.xs # <<>> /\ r1' = ScaleRange(r1, lo, hi, ov) /\ refused' = FALSE /\ UNCHANGED <<r2, r3>>
OpScaleFactor(fac, ov)   == Step /\ r1.xs # <<>> /\ r1' = ScaleFactor(r1, fac, ov) /\ refused' = FALSE /\ UNCHANGED <<r2, r3>>
OpShift(t, ov)           == Step /\ r1.xs # <<>> /\ r1' = Shift(r1, t, ov) /\ refused' = FALSE /\ UNCHANGED <<r2, r3>>
OpRevert                 == Step /\ r1.scaled /\ r1' = Revert(r1) /\ refused' = FALSE /\ UNCHANGED <<r2, r3>>
(* split_pieces(k/len): first k samples / the rest; both inherit the scaling attributes *)
OpSplitPieces(k) == Step /\ k \in 0..Len(r1.xs) /\ r2' = Pick(r1, 1..k) /\ r3' = Pick(r1, (k + 1)..Len(r1.xs))
                    /\ refused' = FALSE /\ UNCHANGED r1
OpSplitLabel(lab) == Step /\ r2' = Pick(r1, {i \in 1..Len(r1.xs) : r1.ls[i] = lab})
                     /\ r3' = Pick(r1, {i \in 1..Len(r1.xs) : r1.ls[i] # lab}) /\ refused' = FALSE /\ UNCHANGED r1
(* remove_samples(I): r1 keeps the rest, r2 receives the removed samples; out-of-range indices are refused *)
OpRemove(I) ==
    /\ Step
    /\ IF I \subseteq 1..Len(r1.xs)
       THEN (r1' = Pick(r1, (1..Len(r1.xs)) \ I) /\ r2' = Pick(r1, I) /\ refused' = FALSE /\ UNCHANGED r3)
       ELSE (refused' = TRUE /\ UNCHANGED <<r1, r2, r3>>)
SameScaling(a, b) == a.scaled = b.scaled /\ a.rng = b.rng
(* r1 := r2 ++ r3, refused when the scalings differ *)
OpConcat ==
    /\ Step
    /\ UNCHANGED <<r2, r3>>
    /\ IF r2.xs = <<>> THEN (r1' = r3 /\ refused' = FALSE)
       ELSE IF r3.xs = <<>> THEN (r1' = r2 /\ refused' = FALSE)
       ELSE IF SameScaling(r2, r3)
            THEN (r1' = [r2 EXCEPT !.xs = r2.xs \o r3.xs, !.ls = r2.ls \o r3.ls, !.base = r2.base \o r3.base] /\ refused' = FALSE)
            ELSE (refused' = TRUE /\ UNCHANGED r1)
(* operate on a piece: swap r1 and r2 so that scaling operations reach derived sets *)
OpSwap == Step /\ r1' = r2 /\ r2' = r1 /\ refused' = FALSE /\ UNCHANGED r3

Ranges == {<<Q(0), Q(1)>>, <<Q(0), Q(2)>>, <<Q(1), Q(3)>>}
Factors == {Q(2), <<1, 2>>, Q(-1)}
Shifts == {Q(1), Q(-1)}
Next == \/ \E rg \in Ranges, ov \in BOOLEAN : OpScaleRange(rg[1], rg[2], ov)
        \/ \E f \in Factors, ov \in BOOLEAN : OpScaleFactor(f, ov)
        \/ \E t \in Shifts, ov \in BOOLEAN : OpShift(t, ov)
        \/ OpRevert
        \/ \E k \in 0..4 : OpSplitPieces(k)
        \/ \E lab \in {-1, 0, 1} : OpSplitLabel(lab)
        \/ \E I \in {{1}, {2}, {1, 3}, {5}, {}} : OpRemove(I)
        \/ OpConcat \/ OpSwap
Spec == Init /\ [][Next]_vars

(* ------------------------- property clauses ------------------------- *)
Pairs(d) == [i \in 1..Len(d.xs) |-> <<d.xs[i], d.ls[i]>>]
BagEq(s, t) == Len(s) = Len(t) /\ \A v \in SetOf(s) \cup SetOf(t) :
                   Cardinality({i \in 1..Len(s) : s[i] = v}) = Cardinality({i \in 1..Len(t) : t[i] = v})
WellFormed(d) == Len(d.xs) = Len(d.ls) /\ Len(d.base) = Len(d.xs)
P_WellFormed == WellFormed(r1) /\ WellFormed(r2) /\ WellFormed(r3)
(* a range-scaled set whose samples are not all equal has its extremes on the range ends *)
HitsRange(d) == (d.scaled /\ d.rng # <<>> /\ d.xs # <<>>) =>
                   (RLe(d.rng[1], RMinOf(SetOf(d.xs))) /\ RLe(RMaxOf(SetOf(d.xs)), d.rng[2]))
P_WithinRange == HitsRange(r1)
P_ScaleHitsRange == [][\A rg \in Ranges, ov \in BOOLEAN : OpScaleRange(rg[1], rg[2], ov) =>
                         (RMinOf(SetOf(r1'.xs)) = rg[1] /\ (Cardinality(SetOf(r1.xs)) > 1 => RMaxOf(SetOf(r1'.xs)) = rg[2]))]_vars
P_RevertRestoresBase == [][OpRevert => r1'.xs = r1.base /\ ~r1'.scaled]_vars
P_SplitPreserves == [][(\E k \in 0..4 : OpSplitPieces(k)) \/ (\E lab \in {-1, 0, 1} : OpSplitLabel(lab))
                          => BagEq(Pairs(r2') \o Pairs(r3'), Pairs(r1)) /\ SameScaling(r2', r1) /\ SameScaling(r3', r1)]_vars
P_RemovePreserves == [][(\E I \in {{1}, {2}, {1, 3}, {5}, {}} : OpRemove(I))
                          => IF refused' THEN UNCHANGED <<r1, r2, r3>> ELSE BagEq(Pairs(r1') \o Pairs(r2'), Pairs(r1))]_vars
P_ConcatRefuses == [][OpConcat => (refused' <=> (r2.xs # <<>> /\ r3.xs # <<>> /\ ~SameScaling(r2, r3)))]_vars
=====================================================================================
