--------------------------------- MODULE DimAdaptive ---------------------------------
(* Control loop of the dimension-adaptive combination (DimAdaptiveCombi.perform_combi):     *)
(*                                                                                        *)
(*   loop:  Eval     scheme := getCombiScheme(); every grid of the scheme is integrated    *)
(*                   unless its level vector is in the cache (integral_dict); the result   *)
(*                   is the coefficient-weighted sum over the scheme                       *)
(*          Errors   for every refinable grid of the scheme the surplus is formed from the *)
(*                   cached integrals of its backward stencil (reads the cache only)       *)
(*          Decide   stop (-> done) or refine                                              *)
(*          Refine*  repeat: take the grid with the largest error (any grid whose error    *)
(*                   is positive; index 0 of the stale scheme list when all are zero),     *)
(*                   request its refinement, zero its error; until the request added a     *)
(*                   grid or was refused (returned None)                                   *)
(*                                                                                        *)
(* The errors are abstracted: posErr is the set of refinable grids whose surplus is        *)
(* non-zero (any subset), the argmax is any member of it.  Integrals are tokens: the        *)
(* result is the set of <<grid, coefficient>> pairs summed up.                             *)
EXTENDS CombiOps
CONSTANTS D, LMIN, LMAX, CAP,
          ON_DEMAND        \* TRUE: a surplus integrates missing stencil grids itself (repaired code)
VARIABLES active, old, cache, pc, stale, posErr, zeroed, result, evals
vars == <<active, old, cache, pc, stale, posErr, zeroed, result, evals>>

Index == active \cup old
Scheme == CoefSet(Index, LMIN)
Grids(S) == {p[1] : p \in S}
Stencil(g) == { [d \in DOMAIN g |-> IF d \in e THEN g[d] - 1 ELSE g[d]] : e \in SUBSET {d \in DOMAIN g : g[d] > LMIN} }

Init == /\ active = StdActive(D, LMIN, LMAX)
        /\ old = StdOld(D, LMIN, LMAX)
        /\ cache = {} /\ pc = "eval" /\ stale = {} /\ posErr = {} /\ zeroed = {} /\ result = {} /\ evals = 0

Eval == /\ pc = "eval"
        /\ stale' = Scheme
        /\ cache' = cache \cup Grids(Scheme)
        /\ result' = Scheme
        /\ evals' = evals + 1
        /\ pc' = "errors"
        /\ UNCHANGED <<active, old, posErr, zeroed>>

Refinable == Grids(stale) \cap active
Missing == UNION {Stencil(g) : g \in Refinable} \ cache

Errors == /\ pc = "errors"
          /\ IF Missing # {} /\ ~ON_DEMAND
             THEN pc' = "crash" /\ UNCHANGED <<cache, posErr>>            \* KeyError in calculate_surplus
             ELSE /\ cache' = cache \cup Missing
                  /\ posErr' \in SUBSET Refinable
                  /\ pc' = "decide"
          /\ zeroed' = {}
          /\ UNCHANGED <<active, old, stale, result, evals>>

Stop == /\ pc = "decide" /\ pc' = "done"
        /\ UNCHANGED <<active, old, cache, stale, posErr, zeroed, result, evals>>
Continue == /\ pc = "decide" /\ pc' = "refine"
            /\ UNCHANGED <<active, old, cache, stale, posErr, zeroed, result, evals>>

(* one pass of the inner loop on grid g *)
Request(g) ==
    /\ pc = "refine"
    /\ IF posErr \ zeroed # {} THEN g \in posErr \ zeroed ELSE g \in Grids(stale)
    /\ zeroed' = zeroed \cup {g}
    /\ IF g \notin active
       THEN /\ pc' = "eval"                       \* update returned None: None == [] is False, the loop ends
            /\ UNCHANGED <<active, old>>
       ELSE LET O2 == old \cup {g}
                A  == Admissible(g, O2, LMIN)
            IN  /\ old' = O2
                /\ active' = (active \ {g}) \cup {Fwd(g, d) : d \in A}
                /\ pc' = IF A = {} THEN "refine" ELSE "eval"
    /\ UNCHANGED <<cache, stale, posErr, result, evals>>

RequestAny == \E g \in Grids(stale) : Request(g)
Next == Eval \/ Errors \/ Stop \/ Continue \/ RequestAny
Spec == Init /\ [][Next]_vars

InBox == (\A v \in Index : \A d \in 1..D : v[d] <= CAP) /\ evals <= 6

(* ---------------- clauses ---------------- *)
(* C05: at every stop the reported value is the combination over the current scheme, every  *)
(* summand was computed (is in the cache)                                                  *)
C05_ResultIsCombination == pc \in {"errors", "decide", "done"} => (result = Scheme /\ Grids(result) \subseteq cache)
(* the loop never reads an integral that was not computed                                   *)
C05_NoException == pc # "crash"
(* C01 clauses of the embedded scheme hold at every evaluation                              *)
C01_Embedded == /\ DownClosed(Index, LMIN) /\ Disjoint(active, old) /\ NoActiveFwd(active, Index)
                /\ InclExcl(Scheme, Index, D, LMIN)
(* an active grid always carries coefficient 1 (no forward neighbour): it is in the scheme    *)
I_ActiveInScheme == \A g \in active : <<g, 1>> \in Scheme
(* the inner loop ends: it visits every grid at most once                                     *)
I_InnerLoopProgress == [][pc = "refine" /\ pc' = "refine" => zeroed # zeroed']_vars
(* a refinement phase entered with a positive error grows the index set or shrinks active     *)
I_RefineChanges == [][(pc = "refine" /\ pc' = "eval" /\ posErr # {}) => (Index' # Index \/ active' # active \/ zeroed # {})]_vars
=====================================================================================
