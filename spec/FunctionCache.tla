-------------------------------- MODULE FunctionCache --------------------------------
(* Evaluation cache of sparseSpACE.Function.Function.__call__.                             *)
(*   fdict   : points whose value is cached (the value of point p is the token p itself)  *)
(*   doCache : caching switched on                                                        *)
(*   seen    : ghost - distinct points passed to __call__ since the last reset            *)
(*   ret     : [vals, rows] result of the last call (value tokens, number of rows)         *)
(* Actions = public calls: a single point, a batch (any sequence incl. empty and with      *)
(* duplicates), the vectorised implementation called directly, cache reset, deactivation.  *)
EXTENDS Integers, Sequences, FiniteSets, TLC
CONSTANTS Points, MAXSTEPS
VARIABLES fdict, doCache, seen, ret, steps
vars == <<fdict, doCache, seen, ret, steps>>
Batches == {<<>>} \cup {<<p>> : p \in Points} \cup {<<p, q>> : p \in Points, q \in Points}
ToSet(s) == {s[i] : i \in 1..Len(s)}
F(p) == p     \* the (deterministic, uninterpreted) function value of point p

Init == fdict = {} /\ doCache = TRUE /\ seen = {} /\ ret = [vals |-> <<>>, rows |-> 0] /\ steps = 0

CallSingle(p) ==
    /\ steps < MAXSTEPS
    /\ ret' = [vals |-> <<F(p)>>, rows |-> 1]           \* cached value or fresh evaluation: the same token
    /\ fdict' = IF doCache THEN fdict \cup {p} ELSE fdict
    /\ seen' = seen \cup {p}
    /\ steps' = steps + 1 /\ UNCHANGED doCache
CallBatch(ps) ==
    /\ steps < MAXSTEPS
    /\ ret' = [vals |-> [i \in 1..Len(ps) |-> F(ps[i])], rows |-> Len(ps)]
    /\ fdict' = fdict \cup ToSet(ps)                   \* the code records batch results also with caching off
    /\ seen' = seen \cup ToSet(ps)
    /\ steps' = steps + 1 /\ UNCHANGED doCache
EvalVectorized(ps) ==
    /\ steps < MAXSTEPS
    /\ ret' = [vals |-> [i \in 1..Len(ps) |-> F(ps[i])], rows |-> Len(ps)]
    /\ steps' = steps + 1 /\ UNCHANGED <<fdict, doCache, seen>>
Reset == steps < MAXSTEPS /\ fdict' = {} /\ seen' = {} /\ ret' = [vals |-> <<>>, rows |-> 0] /\ steps' = steps + 1 /\ UNCHANGED doCache
Deactivate == steps < MAXSTEPS /\ doCache /\ doCache' = FALSE /\ ret' = [vals |-> <<>>, rows |-> 0] /\ steps' = steps + 1 /\ UNCHANGED <<fdict, seen>>

Next == \/ \E p \in Points : CallSingle(p)
        \/ \E ps \in Batches : CallBatch(ps)
        \/ \E ps \in Batches : EvalVectorized(ps)
        \/ Reset \/ Deactivate
Spec == Init /\ [][Next]_vars

P_Counter == doCache => Cardinality(fdict) = Cardinality(seen)
P_CacheSubsetSeen == fdict \subseteq seen
P_Shape == Len(ret.vals) = ret.rows
=====================================================================================
