--------------------------------- MODULE DataSetTrace ---------------------------------
(* Trace specification for C18.  A trace is [dim, events: Seq(event)], an event is           *)
(*   [op, args, raised, regs: <<r1, r2, r3>>]   with a register snapshot                     *)
(*   [xs: Seq(Seq(<<num, den>>)), ls: Seq(Int), scaled, rng: Seq(<<lo, hi>>) (per dimension, *)
(*    empty when the range is not a (lo, hi) pair), factor: Seq(<<num, den>>)]               *)
(* events[1] has op "init".  The specification keeps, per register, the ghost `base`: the    *)
(* (sample, label) pairs as they were before the first scaling since the last overriding      *)
(* rescale - what revert_scaling must restore.                                               *)
EXTENDS Rational, Sequences, FiniteSets, TraceLib
VARIABLES tid, l, regs, base, fails
vars == <<tid, l, regs, base, fails>>
T == Traces[tid]
Ev(i) == T.events[i]
SetOf(s) == {s[i] : i \in 1..Len(s)}
Pairs(r) == [i \in 1..Len(r.xs) |-> <<r.xs[i], r.ls[i]>>]
BagEq(s, t) == Len(s) = Len(t) /\ \A v \in SetOf(s) \cup SetOf(t) :
                   Cardinality({i \in 1..Len(s) : s[i] = v}) = Cardinality({i \in 1..Len(t) : t[i] = v})
SubSeqIdx(s, I) == LET RECURSIVE go(_)
                       go(i) == IF i > Len(s) THEN <<>> ELSE (IF i \in I THEN <<s[i]>> ELSE <<>>) \o go(i + 1)
                   IN  go(1)
Attrs(r) == <<r.scaled, r.rng, r.factor>>
CountP(r, x, lab) == Cardinality({i \in 1..Len(r.xs) : r.xs[i] = x /\ r.ls[i] = lab})
Col(r, d) == {r.xs[i][d] : i \in 1..Len(r.xs)}
AsQ(x) == Norm(x[1], x[2])

(* a register the operation does not work on must still hold the same labelled samples with the same attributes (a silent    *)
(* re-ordering through arrays shared with another data set is tolerated by the property and reported as drift only)        *)
Same(a, b) == BagEq(Pairs(a), Pairs(b)) /\ Attrs(a) = Attrs(b)
Untouched(e) == CASE e.op \in {"scale_range", "scale_factor", "shift", "revert", "concat", "shuffle", "move_boundaries", "remove_labels"} -> {2, 3}
                  [] e.op = "one_vs_others" -> {1, 2, 3}
                  [] e.op \in {"split_pieces", "split_without_labels", "split_labels"} -> {1}
                  [] e.op = "remove" -> {3}
                  [] e.op = "copy" -> {1, 3}
                  [] e.op = "swap" -> {3}
                  [] OTHER -> {}
Clauses0(e, R, R2, B) ==     \* e: event, R: registers before, R2: registers after, B: ghost bases before
    LET r1 == R[1]  n1 == R2[1] IN
    CASE e.op \in {"scale_range", "scale_factor", "shift"} ->
           [ P_NoException |-> ~e.raised,
             P_ScaleHitsRange |-> (e.op = "scale_range" /\ ~e.raised) =>
                                     \A d \in 1..T.dim : /\ RMinOf(Col(n1, d)) = AsQ(e.args.lo)
                                                         /\ (Cardinality(Col(r1, d)) > 1 => RMaxOf(Col(n1, d)) = AsQ(e.args.hi)),
             P_LabelsStayAttached |-> n1.ls = r1.ls /\ Len(n1.xs) = Len(r1.xs),
             P_OthersUntouched |-> Same(R2[2], R[2]) /\ Same(R2[3], R[3]) ]
      [] e.op = "revert" ->
           [ P_NoException |-> ~e.raised,
             P_RevertRestoresBase |-> (B[1].ok => BagEq(Pairs(n1), B[1].ps)) /\ ~n1.scaled,
             P_OthersUntouched |-> Same(R2[2], R[2]) /\ Same(R2[3], R[3]) ]
      [] e.op \in {"split_pieces", "split_without_labels", "split_labels"} ->
           [ P_NoException |-> ~e.raised,
             P_SplitPreserves |-> BagEq(Pairs(R2[2]) \o Pairs(R2[3]),
                                        IF e.op = "split_labels" THEN SubSeqIdx(Pairs(r1), {i \in 1..Len(r1.ls) : r1.ls[i] >= 0}) ELSE Pairs(r1)),
             P_AttributesCarried |-> (R2[2].xs # <<>> => Attrs(R2[2]) = Attrs(r1)) /\ (R2[3].xs # <<>> => Attrs(R2[3]) = Attrs(r1)),
             P_OthersUntouched |-> Same(n1, r1) ]
      [] e.op = "remove" ->
           [ P_BadRemoveRejectedUnchanged |-> e.args.bad => (e.raised /\ R2 = R),
             P_NoException |-> e.args.bad \/ ~e.raised,
             P_RemovePreserves |-> e.args.bad \/ BagEq(Pairs(n1) \o Pairs(R2[2]), Pairs(r1)),
             P_AttributesCarried |-> e.args.bad \/ (Attrs(n1) = Attrs(r1) /\ (R2[2].xs # <<>> => Attrs(R2[2]) = Attrs(r1))),
             P_OthersUntouched |-> Same(R2[3], R[3]) ]
      [] e.op = "concat" ->
           LET differ == R[2].xs # <<>> /\ R[3].xs # <<>> /\ Attrs(R[2]) # Attrs(R[3]) IN
           [ P_ConcatRefusesDifferentScaling |-> differ => (e.raised /\ R2 = R),
             P_NoException |-> differ \/ ~e.raised,
             P_ConcatPreserves |-> (differ \/ e.raised) \/ BagEq(Pairs(n1), Pairs(R[2]) \o Pairs(R[3])),
             P_AttributesCarried |-> (differ \/ e.raised \/ R[2].xs = <<>>) \/ Attrs(n1) = Attrs(R[2]),
             P_OthersUntouched |-> Same(R2[2], R[2]) /\ Same(R2[3], R[3]) ]
      [] e.op \in {"shuffle", "move_boundaries"} ->
           [ P_NoException |-> ~e.raised,
             P_PermutationOnly |-> BagEq(Pairs(n1), Pairs(r1)) /\ Attrs(n1) = Attrs(r1),
             P_OthersUntouched |-> Same(R2[2], R[2]) /\ Same(R2[3], R[3]) ]
      [] e.op = "remove_labels" ->
           \* remove_labels(p): exactly e.args.k = round(p * #labelled) labelled samples lose their label, every other label stays on its sample,
           \* no sample is lost or invented (the samples may be re-ordered), the scaling attributes stay
           [ P_NoException |-> ~e.raised,
             P_RemoveLabelsKeepsSamples |-> e.raised \/
                  /\ BagEq(n1.xs, r1.xs)
                  /\ \A x \in SetOf(r1.xs) : \A lab \in SetOf(r1.ls) \cup SetOf(n1.ls) :
                         lab # -1 => CountP(n1, x, lab) <= CountP(r1, x, lab)
                  /\ Cardinality({i \in 1..Len(n1.ls) : n1.ls[i] = -1}) = Cardinality({i \in 1..Len(r1.ls) : r1.ls[i] = -1}) + e.args.k,
             P_AttributesCarried |-> e.raised \/ Attrs(n1) = Attrs(r1),
             P_OthersUntouched |-> Same(R2[2], R[2]) /\ Same(R2[3], R[3]) ]
      [] e.op = "one_vs_others" ->
           \* split_one_vs_others(): one data set per class holding ALL samples, label 1 on exactly the samples of the class, the weighted
           \* negative label max(-1, -(n_class / n_others)) on all others; e.parts = the returned data sets
           [ P_NoException |-> ~e.raised,
             P_OneVsOthers |-> e.raised \/
                  /\ {p.cls : p \in SetOf(e.parts)} = SetOf(r1.ls) /\ Len(e.parts) = Cardinality(SetOf(r1.ls))
                  /\ \A p \in SetOf(e.parts) :
                        LET nc == Cardinality({i \in 1..Len(r1.ls) : r1.ls[i] = p.cls})
                            no == Len(r1.ls) - nc
                        IN  /\ BagEq([i \in 1..Len(p.xs) |-> <<p.xs[i], p.one[i]>>], [i \in 1..Len(r1.xs) |-> <<r1.xs[i], r1.ls[i] = p.cls>>])
                            /\ \A i \in 1..Len(p.xs) : (~p.one[i] /\ no > 0) =>
                                   AsQ(p.neg[i]) = (IF nc >= no THEN Q(-1) ELSE Norm(-nc, no)),
             P_AttributesCarried |-> e.raised \/ \A p \in SetOf(e.parts) : <<p.scaled, p.rng, p.factor>> = Attrs(r1),
             P_OthersUntouched |-> Same(n1, r1) /\ Same(R2[2], R[2]) /\ Same(R2[3], R[3]) ]
      [] e.op = "swap" -> [ P_NoException |-> R2 = <<R[2], R[1], R[3]>> ]
      [] e.op = "copy" ->        \* register 2 := copy() of register 1 (the library's own copy): an independent data set with the same content
           [ P_NoException |-> ~e.raised,
             P_CopyEqual |-> R2[2] = r1,
             P_OthersUntouched |-> Same(n1, r1) /\ Same(R2[3], R[3]) ]
      [] OTHER -> [ P_NoException |-> TRUE ]

Clauses(e, R, R2, B) ==
    LET c0 == Clauses0(e, R, R2, B)
        ident == \A i \in Untouched(e) : R2[i] = R[i]
    IN  [n \in DOMAIN c0 \cup {"I_OthersIdentical"} |-> IF n = "I_OthersIdentical" THEN (e.raised \/ ident) ELSE c0[n]]

(* ghost update.  base[i] = [ok, al, ps]: ps = (sample, label) pairs to be restored by a revert; ok = ps is   *)
(* known as a bag; al = ps is index-aligned with the register (lost by shuffling a scaled set).              *)
Known(ps) == [ok |-> TRUE, al |-> TRUE, ps |-> ps]
Unknown == [ok |-> FALSE, al |-> FALSE, ps |-> <<>>]
PickB(b, I) == IF b.ok /\ b.al /\ I \subseteq 1..Len(b.ps) THEN Known(SubSeqIdx(b.ps, I)) ELSE Unknown
Idx(r, P(_)) == {i \in 1..Len(r.ls) : P(r.ls[i])}
RawNextBase(e, R, B) ==
    LET r1 == R[1] IN
    CASE e.op \in {"scale_range", "scale_factor", "shift"} ->
           <<IF ~e.raised /\ (~r1.scaled \/ e.args.override) THEN Known(Pairs(r1)) ELSE B[1], B[2], B[3]>>
      [] e.op = "split_pieces" -> <<B[1], PickB(B[1], 1..e.args.k), PickB(B[1], (e.args.k + 1)..Len(r1.ls))>>
      [] e.op = "split_without_labels" -> <<B[1], PickB(B[1], Idx(r1, LAMBDA x : x = -1)), PickB(B[1], Idx(r1, LAMBDA x : x >= 0))>>
      [] e.op = "split_labels" -> <<B[1], PickB(B[1], Idx(r1, LAMBDA x : x = 0)), PickB(B[1], Idx(r1, LAMBDA x : x = 1))>>
      [] e.op = "remove" -> IF e.raised THEN B
                            ELSE <<PickB(B[1], (1..Len(r1.ls)) \ SetOf(e.args.idx)), PickB(B[1], SetOf(e.args.idx)), B[3]>>
      [] e.op = "concat" -> IF e.raised THEN B
                            ELSE <<IF B[2].ok /\ B[3].ok /\ B[2].al /\ B[3].al
                                      /\ (R[2].xs = <<>> \/ R[3].xs = <<>> \/ Attrs(R[2]) = Attrs(R[3]))   \* a merge that had to be refused has no base
                                   THEN Known(B[2].ps \o B[3].ps) ELSE Unknown, B[2], B[3]>>
      [] e.op = "swap" -> <<B[2], B[1], B[3]>>
      [] e.op = "copy" -> IF e.raised THEN B ELSE <<B[1], B[1], B[3]>>
      [] e.op \in {"shuffle", "move_boundaries"} -> <<[B[1] EXCEPT !.al = FALSE], B[2], B[3]>>
      [] e.op = "remove_labels" -> <<Unknown, B[2], B[3]>>      \* the labels of the base are no longer those of the register
      [] OTHER -> B
(* an unscaled register is its own base *)
NextBase(e, R, R2, B) ==
    LET nb == RawNextBase(e, R, B)
        \* a register that was silently re-ordered is no longer index-aligned with its base
        nb2 == [i \in 1..3 |-> IF i \in Untouched(e) /\ R2[i] # R[i] THEN [nb[i] EXCEPT !.al = FALSE] ELSE nb[i]]
    IN  [i \in 1..3 |-> IF R2[i].scaled THEN nb2[i] ELSE Known(Pairs(R2[i]))]

Init == /\ tid \in 1..NTraces /\ l = 1
        /\ regs = Traces[tid].events[1].regs
        /\ base = [i \in 1..3 |-> Known(Pairs(Traces[tid].events[1].regs[i]))]
        /\ fails = {}
        /\ Record(tid, Len(Traces[tid].events), 1, fails)
Next == /\ l < Len(T.events) /\ l' = l + 1 /\ tid' = tid
        /\ LET e == Ev(l + 1) IN
             /\ fails' = fails \cup FailedOf(Clauses(e, regs, e.regs, base), l + 1)
             /\ regs' = e.regs
             /\ base' = NextBase(e, regs, e.regs, base)
        /\ Record(tid, Len(T.events), l + 1, fails')
Spec == Init /\ [][Next]_vars
Post == PrintVerdicts
=====================================================================================
