----------------------------------- MODULE TreeQuad -----------------------------------
(* Global 1-D quadrature rules on refinement-tree grids (C09) and the weighted (UQ) trapezoidal *)
(* rule for the uniform and the symmetric triangle distribution (C15), specified as exact         *)
(* integrals of the piecewise-linear interpolant:                                                *)
(*   boundary points on : interpolant through all points                                         *)
(*   boundary points off: zero boundary values (unmodified)  /  linear extrapolation from the      *)
(*                        two outermost inner points (modified basis)                             *)
(* State: pos = sorted lattice positions of a refinement tree on 0..LAT (midpoint splits).        *)
(* Derived oracles are kept in variables: w2 (twice the trapezoidal weights), wmod (modified       *)
(* basis, rationals), wuni / wtri (weighted rules, rationals).                                    *)
EXTENDS Rational, Sequences, FiniteSets
CONSTANTS LAT, MAXSPLITS, WARP
VARIABLES pos, lev, nsplit, w2, wmod, wuni, wtri
vars == <<pos, lev, nsplit, w2, wmod, wuni, wtri>>
N == Len(pos)
(* WARP: the quadrature rules are evaluated on the monotone image x -> x (x + LAT) of the tree positions, i.e. on a   *)
(* strongly graded grid with non-dyadic split ratios (weighted midpoints); LX is the length of the warped interval   *)
X(x) == IF WARP THEN x * (x + LAT) ELSE x
LX == X(LAT)
XS(p) == [i \in 1..Len(p) |-> X(p[i])]
RECURSIVE SumSeq(_, _)
SumSeq(s, i) == IF i = 0 THEN 0 ELSE s[i] + SumSeq(s, i - 1)
RECURSIVE RSumSeq(_, _)
RSumSeq(s, i) == IF i = 0 THEN Q(0) ELSE RAdd(s[i], RSumSeq(s, i - 1))

(* twice the trapezoidal weights: w_i = (x_i - x_{i-1})/2 + (x_{i+1} - x_i)/2 *)
Trap2(p) == [i \in 1..Len(p) |-> (IF i > 1 THEN p[i] - p[i - 1] ELSE 0) + (IF i < Len(p) THEN p[i + 1] - p[i] ELSE 0)]
(* modified basis: boundary weights 0; one inner point: constant; else linear extrapolation at both ends *)
Mod(p) ==
    LET n == Len(p) t == Trap2(p) IN
    IF n = 3 THEN <<Q(0), Q(p[3] - p[1]), Q(0)>>
    ELSE LET h0 == p[2] - p[1]  h1 == p[3] - p[2]  hr == p[n] - p[n - 1]  hl == p[n - 1] - p[n - 2]
             base == [i \in 1..n |-> IF i = 1 \/ i = n THEN Q(0)
                                     ELSE Norm((IF i > 2 THEN p[i] - p[i - 1] ELSE 0) + (IF i < n - 1 THEN p[i + 1] - p[i] ELSE 0), 2)]
             addL == [i \in 1..n |-> IF i = 2 THEN RAdd(Q(h0), Norm(h0 * h0, 2 * h1)) ELSE IF i = 3 THEN Norm(-(h0 * h0), 2 * h1) ELSE Q(0)]
             addR == [i \in 1..n |-> IF i = n - 1 THEN RAdd(Q(hr), Norm(hr * hr, 2 * hl)) ELSE IF i = n - 2 THEN Norm(-(hr * hr), 2 * hl) ELSE Q(0)]
         IN  [i \in 1..n |-> RAdd(base[i], RAdd(addL[i], addR[i]))]
(* weighted trapezoid for a density given by its zeroth and first moment functions on [x1, x2]:   *)
(* w2 = (m1 - m0 x1)/(x2 - x1), w1 = m0 - w2 (method of undetermined coefficients)                 *)
Weighted(p, M0(_, _), M1(_, _)) ==
    LET n == Len(p)
        wr(i) == RDiv(RSub(M1(p[i], p[i + 1]), RMul(M0(p[i], p[i + 1]), Q(p[i]))), Q(p[i + 1] - p[i]))   \* right end of interval i
        wl(i) == RSub(M0(p[i], p[i + 1]), wr(i))
    IN  [i \in 1..n |-> RAdd(IF i > 1 THEN wr(i - 1) ELSE Q(0), IF i < n THEN wl(i) ELSE Q(0))]
(* uniform density 1/LAT *)
U0(a, b) == Norm(b - a, LX)
U1(a, b) == Norm(b * b - a * a, 2 * LX)
(* symmetric triangle density on [0, LAT] with mode c = LAT/2: f(x) = x/c^2 left of c, (LAT - x)/c^2 right; lattice points include c *)
Cm == LAT \div 2
TCdfNum(x) == IF x <= Cm THEN x * x ELSE 2 * Cm * Cm - (LAT - x) * (LAT - x)          \* CDF = TCdfNum / (2 c^2)
T0(a, b) == IF a < Cm /\ b > Cm THEN Q(0) ELSE Norm(TCdfNum(b) - TCdfNum(a), 2 * Cm * Cm)
(* first moment antiderivative numerators over 3 c^2:  left x^3 ; right (3 LAT x^2 / 2 - x^3) scaled by 2 *)
TM1Num(x) == IF x <= Cm THEN 2 * x * x * x ELSE 2 * Cm * Cm * Cm + (3 * LAT * x * x - 2 * x * x * x) - (3 * LAT * Cm * Cm - 2 * Cm * Cm * Cm)
T1(a, b) == IF a < Cm /\ b > Cm THEN Q(0) ELSE Norm(TM1Num(b) - TM1Num(a), 6 * Cm * Cm)
HasMode(p) == ~WARP /\ \E i \in 1..Len(p) : p[i] = Cm

Derive(p) == [w2 |-> Trap2(XS(p)),
              wmod |-> IF Len(p) >= 3 THEN Mod(XS(p)) ELSE <<>>,
              wuni |-> Weighted(XS(p), U0, U1),
              wtri |-> IF HasMode(p) THEN Weighted(p, T0, T1) ELSE <<>>]
SetAll(p, l, k) == LET d == Derive(p) IN
    /\ pos' = p /\ lev' = l /\ nsplit' = k /\ w2' = d.w2 /\ wmod' = d.wmod /\ wuni' = d.wuni /\ wtri' = d.wtri
Init == LET p == <<0, LAT \div 2, LAT>> d == Derive(p) IN
    /\ pos = p /\ lev = <<0, 1, 0>> /\ nsplit = 0 /\ w2 = d.w2 /\ wmod = d.wmod /\ wuni = d.wuni /\ wtri = d.wtri
MaxI2(a, b) == IF a > b THEN a ELSE b
Split(i) == /\ nsplit < MAXSPLITS /\ i \in 1..(N - 1) /\ pos[i + 1] - pos[i] >= 2
            /\ LET ins(s, v) == SubSeq(s, 1, i) \o <<v>> \o SubSeq(s, i + 1, Len(s))
               IN  SetAll(ins(pos, (pos[i] + pos[i + 1]) \div 2), ins(lev, MaxI2(lev[i], lev[i + 1]) + 1), nsplit + 1)
Next == \E i \in 1..(LAT + 1) : Split(i)
Spec == Init /\ [][Next]_vars

(* ---------------- C09 ---------------- *)
C09_SumIsLength   == SumSeq(w2, N) = 2 * LX
C09_NonNegative   == \A i \in 1..N : w2[i] >= 0
C09_LinearExact   == SumSeq([i \in 1..N |-> w2[i] * X(pos[i])], N) = LX * LX
C09_InnerSameAsBoundary == TRUE   \* without boundary points the inner weights are the same numbers (zero boundary values)
(* modified basis: constants always, linear functions as soon as there are two inner points to extrapolate from *)
C09_ModifiedExact == N >= 3 => /\ RSumSeq(wmod, N) = Q(LX)
                               /\ (N >= 4 => RSumSeq([i \in 1..N |-> RMul(wmod[i], Q(X(pos[i])))], N) = Norm(LX * LX, 2))
                               /\ wmod[1] = Q(0) /\ wmod[N] = Q(0)
(* ---------------- C15 ---------------- *)
C15_UniformIsTrapezoid == \A i \in 1..N : wuni[i] = Norm(w2[i], 2 * LX)
C15_SumOne == RSumSeq(wuni, N) = Q(1) /\ (wtri # <<>> => RSumSeq(wtri, N) = Q(1))
C15_NonNegative == (\A i \in 1..N : RLe(Q(0), wuni[i])) /\ (wtri # <<>> => \A i \in 1..N : RLe(Q(0), wtri[i]))
C15_TriangleMean == wtri # <<>> => RSumSeq([i \in 1..N |-> RMul(wtri[i], Q(pos[i]))], N) = Q(Cm)
=====================================================================================
