---- MODULE MC_HatSystems ----
EXTENDS HatSystems
MCGrids == { <<0, 4, 8>>, <<0, 2, 4, 8>>, <<0, 4, 6, 8>>, <<0, 2, 4, 6, 8>>, <<0, 1, 2, 4, 8>>, <<0, 4, 6, 7, 8>>, <<0, 2, 3, 4, 8>> }
MCGridsBig == MCGrids \cup { <<0, 1, 2, 3, 4, 5, 6, 7, 8>>, <<0, 1, 2, 4, 6, 8>>, <<0, 2, 4, 5, 6, 7, 8>> }
MCData == { [x |-> << <<3, 5>> >>, y |-> <<1>>],
            [x |-> << <<4, 4>>, <<1, 7>> >>, y |-> <<1, 1>>],
            [x |-> << <<0, 8>>, <<2, 6>>, <<5, 5>> >>, y |-> <<1, 1, 1>>],
            [x |-> << <<2, 2>>, <<6, 3>>, <<7, 1>> >>, y |-> <<1, -1, 1>>],
            [x |-> << <<4, 0>>, <<4, 8>>, <<3, 3>>, <<5, 6>> >>, y |-> <<-1, 1, -1, 1>>] }
\* three dimensions: uniform grids (levels 1 and 2), samples with three coordinates (on grid planes, on the boundary)
MCGrids3 == { <<0, 4, 8>>, <<0, 2, 4, 6, 8>> }
MCData3 == { [x |-> << <<3, 5, 1>>, <<4, 4, 4>>, <<0, 8, 2>> >>, y |-> <<1, 1, 1>>],
             [x |-> << <<2, 2, 6>>, <<6, 3, 3>>, <<7, 1, 4>>, <<4, 6, 8>> >>, y |-> <<1, -1, 1, -1>>] }
\* three dimensions, anisotropic: uniform grids of levels 1-3, bounded by MAXPTS (e.g. levels (2,3,1): 21 inner points)
MCGrids3b == { <<0, 4, 8>>, <<0, 2, 4, 6, 8>>, <<0, 1, 2, 3, 4, 5, 6, 7, 8>> }
MCData1 == { [x |-> << <<3, 5>> >>, y |-> <<1>>] }
====
