--------------------------------- MODULE HierLagrange ---------------------------------
(* Behaviour over HierLagrangeOps.tla: refinement of a dyadic tree; sur / rep carry the exact surpluses of the      *)
(* monomials and which of them the hierarchical Lagrange interpolant reproduces everywhere (one implementation      *)
(* test per state).                                                                                               *)
EXTENDS HierLagrangeOps
VARIABLES pts,    \* inner points of the tree
          sur,    \* sur[k][x]: surplus of node x for the monomial x^k, k = 0..P
          rep     \* rep[k]: x^k is reproduced at every lattice point
vars == <<pts, sur, rep>>
(* ------------------------------------------------------------- behaviour ------------------------------ *)
Init == pts = {} /\ sur = Surpluses({}) /\ rep = Reproduced({}, sur)
Add(x) == /\ x \notin pts /\ x % 2 = 0 /\ (Lev(x) = 1 \/ ParentOf(x) \in pts)
          /\ pts' = pts \cup {x} /\ sur' = Surpluses(pts') /\ rep' = Reproduced(pts', sur')
Next == \E x \in 1..(N - 1) : Add(x)
Spec == Init /\ [][Next]_vars
(* ------------------------------------------------------------- properties ----------------------------- *)
C10_RoundTrip == \A k \in 0..P : \A x \in Nodes(pts) : Interp(pts, sur[k], x) = Q(Pw(x, k))
C10_Kronecker == \A x \in Nodes(pts) : LET kn == Knots(x) IN \A j \in 1..Len(kn) : LagProd(kn, CHOOSE i \in 1..Len(kn) : kn[i] = x, kn[j], 1) = Q(IF kn[j] = x THEN 1 ELSE 0)
C10_Hierarchical == \A x \in Nodes(pts) : \A y \in Nodes(pts) : (y # x /\ Lev(y) <= Lev(x)) => Phi(x, y) = Q(0)      \* triangular collocation system: uniquely solvable
ReproMonotone == \A k \in 1..P : rep[k] => rep[k - 1]
ReproLinear == rep[0] /\ rep[1]
ReproQuadratic == (P >= 2 /\ pts # {}) => rep[2]
ReproComplete == \A m \in 1..(M - 1) : pts = Complete(m) => \A k \in 0..P : k <= m + 1 => rep[k]
(* the bound stated in property C10 - min(P, number of points - 1) - is NOT an invariant of this model: the driver reads `rep` *)
StatedBound == \A k \in 0..P : k <= Cardinality(pts) + 1 => rep[k]
=====================================================================================
