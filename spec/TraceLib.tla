--------------------------------- MODULE TraceLib ---------------------------------
(* Batch trace validation: IOEnv.TRACE_FILE holds a JSON array of traces recorded from    *)
(* the implementation.  A trace specification chooses the trace id in Init, steps through *)
(* the recorded events and accumulates in `fails` the pairs <<event number, clause>> of     *)
(* every specification clause that does not hold on the recorded execution.  The verdict   *)
(* of every trace is stored in a TLC register when its last event has been consumed and    *)
(* printed as one JSON line by the POSTCONDITION (run with -workers 1).                    *)
EXTENDS Integers, Sequences, TLC, TLCExt, Json, IOUtils
Traces == JsonDeserialize(IOEnv.TRACE_FILE)
NTraces == Len(Traces)
ToSet(s) == {s[i] : i \in 1..Len(s)}
FailedOf(clauses, l) == {<<l, n>> : n \in {m \in DOMAIN clauses : ~clauses[m]}}
Record(tid, len, l, fails) == IF l = len THEN TLCSet(tid, fails) ELSE TRUE
Verdicts == [i \in 1..NTraces |-> TLCGet(i)]
PrintVerdicts == PrintT("JSON:" \o ToJson(Verdicts))
=====================================================================================
