-------------------------------- MODULE ExtendSplitOps --------------------------------
(* Pure operators for the extend-split strategy (spatiallyAdaptiveExtendSplit.py,           *)
(* RefinementObjectExtendSplit).  Boxes live on the integer lattice 0..LAT per dimension.    *)
(* A leaf area is  [s, e: 1..D -> Int, c: coarseningValue, n: needExtendScheme, path]        *)
(* where path is the position of the area in the area tree (sequence of child indices; an    *)
(* extend adds a single child 1, a split adds children 1..2^D).                              *)
(* cf = [D, lmin, version, nrbe] with nrbe = numberOfRefinementsBeforeExtend as stored in     *)
(* the areas (the constructor argument + 1, see initialize_refinement).                      *)
EXTENDS CombiOps

RECURSIVE P2(_)
P2(n) == IF n = 0 THEN 1 ELSE 2 * P2(n - 1)
MaxOfVec(v) == Max({v[d] : d \in DOMAIN v})

(* ---------------- the standard scheme in list order (getCombiScheme closed form) ---------------- *)
(* order: blocks q = 0, 1, ...; inside a block lexicographic ascending (getGrids recursion)          *)
RECURSIVE LexLess(_, _, _)
LexLess(v, w, d) == IF d > Len(v) THEN FALSE ELSE IF v[d] # w[d] THEN v[d] < w[d] ELSE LexLess(v, w, d + 1)
QOf(v, D, lmin, lmax) == lmax + (D - 1) * lmin - SumV(v)
SchemeBefore(v, w, D, lmin, lmax) ==
    LET qv == QOf(v, D, lmin, lmax)  qw == QOf(w, D, lmin, lmax) IN qv < qw \/ (qv = qw /\ LexLess(v, w, 1))
SchemeVecs(D, lmin, lmax) == {p[1] : p \in ClosedForm(D, lmin, lmax)}
CoefOfVec(v, D, lmin, lmax) == (CHOOSE p \in ClosedForm(D, lmin, lmax) : p[1] = v)[2]

(* ---------------- coarsen_grid ---------------- *)
FirstMaxDim(t) == Min({d \in DOMAIN t : t[d] = MaxOfVec(t)})
SecondLargest(t) == IF Len(t) = 1 THEN t[1]
                    ELSE LET m == FirstMaxDim(t) IN Max({t[d] : d \in DOMAIN t \ {m}})
RECURSIVE Reduce0(_, _, _)
(* version 0, gap too small: lower the first maximal entry by one, c times or until lmin is reached *)
Reduce0(t, c, lmin) == IF c <= 0 \/ MaxOfVec(t) = lmin THEN t
                       ELSE Reduce0([t EXCEPT ![FirstMaxDim(t)] = @ - 1], c - 1, lmin)
(* version 0: <<coarsened vector, candidate for computation>> (collisions are resolved by Computed0) *)
Coarsen0(lv, c, lmin) ==
    LET gap == IF Len(lv) > 1 THEN MaxOfVec(lv) - SecondLargest(lv) ELSE 0
    IN  IF gap < c THEN <<Reduce0(lv, c, lmin), FALSE>>
        ELSE <<[lv EXCEPT ![FirstMaxDim(lv)] = @ - c], TRUE>>
RECURSIVE Reduce12(_, _, _, _, _, _, _)
(* versions 1 and 2: lower ALL maximal entries by one while allowed *)
Reduce12(t, c, csave, cf, lmax, top, fuel) ==
    LET mx == MaxOfVec(t)
        occ == Cardinality({d \in DOMAIN t : t[d] = mx})
        nofwd == IF cf.version = 1 THEN csave >= lmax + cf.D - 1 - mx - (cf.D - 2) - mx + 1
                                   ELSE csave >= lmax + cf.D - 1 - mx - (cf.D - 2) - mx + 2
        do == nofwd /\ (IF cf.version = 1 THEN c >= occ - (IF top THEN 1 ELSE 0) ELSE c >= occ)
    IN  IF c <= 0 \/ mx = cf.lmin \/ ~do \/ fuel = 0 THEN t
        ELSE Reduce12([d \in DOMAIN t |-> IF t[d] = mx THEN t[d] - 1 ELSE t[d]], c - occ, csave, cf, lmax, top, fuel - 1)
Coarsen12(lv, c, cf, lmax) ==
    <<Reduce12(lv, c, c, cf, lmax, (lmax + cf.D - 1) - SumV(lv) = 0, 64), TRUE>>
RECURSIVE Reduce3(_, _, _, _)
(* version 3: round robin over the dimensions, one unit of coarsening per visit, an entry is lowered only above lmin *)
Reduce3(t, c, dir, lmin) == IF c <= 0 THEN t
                            ELSE Reduce3(IF t[dir] > lmin THEN [t EXCEPT ![dir] = @ - 1] ELSE t, c - 1, (dir % Len(t)) + 1, lmin)
Coarsen3(lv, c, cf) == <<Reduce3(lv, c, 1, cf.lmin), TRUE>>
CoarsenVec(lv, c, cf, lmax) == IF cf.version = 0 THEN Coarsen0(lv, c, cf.lmin)
                               ELSE IF cf.version = 3 THEN Coarsen3(lv, c, cf) ELSE Coarsen12(lv, c, cf, lmax)
(* is the component grid lv computed on an area with coarsening c?  version 0: only the first level vector  *)
(* (in scheme order) among those with the same coarsened vector                                              *)
Computed(lv, c, cf, lmax) ==
    LET r == CoarsenVec(lv, c, cf, lmax) IN
    /\ r[2]
    /\ (cf.version = 0 =>
          ~\E w \in SchemeVecs(cf.D, cf.lmin, lmax) :
               /\ SchemeBefore(w, lv, cf.D, cf.lmin, lmax)
               /\ LET rw == CoarsenVec(w, c, cf, lmax) IN rw[2] /\ rw[1] = r[1])
LocalLevel(lv, c, cf, lmax) == [d \in 1..cf.D |-> CoarsenVec(lv, c, cf, lmax)[1][d] - cf.lmin]

(* ---------------- geometry ---------------- *)
Contains(a, p) == \A d \in DOMAIN p : a.s[d] <= p[d] /\ p[d] <= a.e[d]
Volume(a) == LET RECURSIVE pr(_)
                 pr(d) == IF d = 0 THEN 1 ELSE (a.e[d] - a.s[d]) * pr(d - 1)
             IN  pr(Len(a.s))
InteriorsDisjoint(a, b) == \E d \in DOMAIN a.s : a.e[d] <= b.s[d] \/ b.e[d] <= a.s[d]
Tiling(L, lat, D) ==
    /\ \A i \in 1..Len(L) : \A d \in 1..D : 0 <= L[i].s[d] /\ L[i].s[d] < L[i].e[d] /\ L[i].e[d] <= lat
    /\ \A i, j \in 1..Len(L) : i < j => InteriorsDisjoint(L[i], L[j])
    /\ FoldSet(LAMBDA i, acc : acc + Volume(L[i]), 0, 1..Len(L)) = Volume([s |-> [d \in 1..D |-> 0], e |-> [d \in 1..D |-> lat]])

(* 1-D points of the local grid of level l on [s, e] *)
LocalPts(s, e, l) == {s + k * ((e - s) \div P2(l)) : k \in 0..P2(l)}
RECURSIVE TensorUp(_, _)
TensorUp(sets, d) == IF d = 0 THEN {<<>>} ELSE {Append(x, y) : x \in TensorUp(sets, d - 1), y \in sets[d]}
(* coefficients of the computed component grids sum to one at every local grid point of the area *)
LocalCombinationValid(a, cf, lmax) ==
    LET vecs == {v \in SchemeVecs(cf.D, cf.lmin, lmax) : Computed(v, a.c, cf, lmax)}
        sets(v) == [d \in 1..cf.D |-> LocalPts(a.s[d], a.e[d], LocalLevel(v, a.c, cf, lmax)[d])]
        inGrid(x, v) == \A d \in 1..cf.D : x[d] \in sets(v)[d]
        U == UNION {TensorUp(sets(v), cf.D) : v \in vecs}
    IN  /\ vecs # {}
        /\ \A x \in U : FoldSet(LAMBDA v, acc : acc + CoefOfVec(v, cf.D, cf.lmin, lmax), 0, {v \in vecs : inGrid(x, v)}) = 1

(* ---------------- splitting / extending ---------------- *)
Mid(a, d) == (a.s[d] + a.e[d]) \div 2
(* child i (1..2^D): bit d-1 of i-1 selects the upper half in dimension d *)
Bit(i, d) == ((i - 1) \div P2(d - 1)) % 2
SplitChild(a, i, D) ==
    [s |-> [d \in 1..D |-> IF Bit(i, d) = 0 THEN a.s[d] ELSE Mid(a, d)],
     e |-> [d \in 1..D |-> IF Bit(i, d) = 0 THEN Mid(a, d) ELSE a.e[d]],
     c |-> a.c, n |-> a.n + 1, path |-> Append(a.path, i)]
SplitChildren(a, D) == [i \in 1..P2(D) |-> SplitChild(a, i, D)]
Bump(L) == [i \in 1..Len(L) |-> [L[i] EXCEPT !.c = @ + 1]]

RECURSIVE ProcessSel(_, _, _, _, _, _)
(* processes the selected leaf indices in list order; st = [leaves (possibly with bumped c), new, lmax] *)
ProcessSel(idx, Sel, st, cf, nleaves, dummy) ==
    IF idx > nleaves THEN st
    ELSE IF idx \notin Sel THEN ProcessSel(idx + 1, Sel, st, cf, nleaves, dummy)
    ELSE LET a == st.leaves[idx] IN
         IF a.n >= cf.nrbe
         THEN (* extend *)
              IF a.c = 0
              THEN LET st2 == [leaves |-> Bump(st.leaves), new |-> Bump(st.new), lmax |-> st.lmax + 1]
                       ch == [s |-> a.s, e |-> a.e, c |-> 0, n |-> a.n, path |-> Append(a.path, 0)]
                   IN  ProcessSel(idx + 1, Sel, [st2 EXCEPT !.new = Append(@, ch)], cf, nleaves, dummy)
              ELSE LET ch == [s |-> a.s, e |-> a.e, c |-> a.c - 1, n |-> a.n, path |-> Append(a.path, 0)]
                   IN  ProcessSel(idx + 1, Sel, [st EXCEPT !.new = Append(@, ch)], cf, nleaves, dummy)
         ELSE (* split *)
              ProcessSel(idx + 1, Sel, [st EXCEPT !.new = @ \o SplitChildren(a, cf.D)], cf, nleaves, dummy)

SelectSeqIdx(s, I) == LET RECURSIVE go(_)
                          go(i) == IF i > Len(s) THEN <<>> ELSE (IF i \in I THEN <<s[i]>> ELSE <<>>) \o go(i + 1)
                      IN  go(1)
RefineLeaves(L, lmax, Sel, cf) ==
    LET st == ProcessSel(1, Sel, [leaves |-> L, new |-> <<>>, lmax |-> lmax], cf, Len(L), 0)
    IN  [leaves |-> SelectSeqIdx(st.leaves, (1..Len(L)) \ Sel) \o st.new, lmax |-> st.lmax]

(* ---------------- ownership of evaluation points (get_points_in_areas_recursive) ---------------- *)
(* The area tree is given by the leaf paths: a path element 0 is the single child created by an extend,  *)
(* elements 1..2^D are the children of a split.  A point goes to the first child whose closed box        *)
(* contains it.                                                                                          *)
AsArea(s, e) == [s |-> s, e |-> e, c |-> 0, n |-> 0, path |-> <<>>]
RECURSIVE Owner(_, _, _, _, _, _)
Owner(pi, s, e, p, paths, D) ==
    IF pi \in paths THEN pi
    ELSE LET k == Len(pi) + 1
             K == {q[k] : q \in {r \in paths : Len(r) >= k /\ SubSeq(r, 1, k - 1) = pi}}
         IN  IF K = {} THEN <<-1>>                       \* not a tree
             ELSE IF 0 \in K THEN Owner(Append(pi, 0), s, e, p, paths, D)
             ELSE LET ok == {j \in K : Contains(SplitChild(AsArea(s, e), j, D), p)}
                  IN  IF ok = {} THEN <<-1>>
                      ELSE LET ch == SplitChild(AsArea(s, e), Min(ok), D) IN Owner(Append(pi, Min(ok)), ch.s, ch.e, p, paths, D)
=====================================================================================
