---- MODULE MC_Classification ----
EXTENDS Classification
S(i, l, b) == [inside |-> i, label |-> l, best |-> b]
MCBatches == { <<S(TRUE, 0, 0), S(TRUE, 1, 0)>>, <<S(FALSE, 0, 1)>>, <<S(TRUE, -1, 1), S(TRUE, 1, 1), S(FALSE, 1, 0)>>, <<S(FALSE, -1, 0), S(FALSE, 1, 1)>>, <<S(TRUE, -1, 0)>> }
====
