------------------------------ MODULE ExtendSplitTrace ------------------------------
(* Trace specification for the extend-split strategy (C07 and the extend-split part of C04). *)
(* A trace is [cfg: [D, lmin, lmax, version, nrbe, lat, mnum, mden, ispec], events: Seq(event)], *)
(* ispec = the run used the non-automatic 2^D-split policy modelled by ExtendSplitOps.             *)
(* one event per evaluation:                                                                 *)
(*   [B: Seq(Int) benefits in force for the step leading here (empty for the first event),    *)
(*    leaves: Seq([s, e, c, n]), lmax, scheme: Seq(<<lv, coef>>),                              *)
(*    coarse: Seq(Seq(<<lv, local level vector, computed?>>)) per leaf in scheme order,        *)
(*    owners: Seq(<<point, Seq(leaf index)>>), interp_ok, multilinear_ok]                      *)
EXTENDS ExtendSplitOps, TraceLib
VARIABLES tid, l, st, fails
vars == <<tid, l, st, fails>>
T == Traces[tid]
C == T.cfg
cfOf == [D |-> C.D, lmin |-> C.lmin, version |-> C.version, nrbe |-> C.nrbe]
PairSet(s) == {<<s[i][1], s[i][2]>> : i \in 1..Len(s)}
Leaf(e, i) == [s |-> e.leaves[i].s, e |-> e.leaves[i].e, c |-> e.leaves[i].c, n |-> e.leaves[i].n, path |-> <<>>]
Leaves(e) == [i \in 1..Len(e.leaves) |-> Leaf(e, i)]

LocalSumOne(e, i) ==
    LET a == Leaf(e, i)
        G == {k \in 1..Len(e.coarse[i]) : e.coarse[i][k][3]}
        sets(k) == [d \in 1..C.D |-> LocalPts(a.s[d], a.e[d], e.coarse[i][k][2][d])]
        coef(k) == (CHOOSE p \in PairSet(e.scheme) : p[1] = e.coarse[i][k][1])[2]
        U == UNION {TensorUp(sets(k), C.D) : k \in G}
    IN  /\ G # {}
        /\ \A k \in G : \E p \in PairSet(e.scheme) : p[1] = e.coarse[i][k][1]
        /\ \A x \in U : FoldSet(LAMBDA k, acc : acc + coef(k), 0, {k \in G : \A d \in 1..C.D : x[d] \in sets(k)[d]}) = 1

StateClauses(e) ==
    LET L == Leaves(e) IN
    [ C07_Tiling           |-> Tiling(L, C.lat, C.D),
      C07_CoarseningNonNeg |-> \A i \in 1..Len(L) : L[i].c >= 0,
      C07_UniqueOwner      |-> \A k \in 1..Len(e.owners) :
                                  /\ Len(e.owners[k][2]) = 1
                                  /\ e.owners[k][2][1] \in 1..Len(L)
                                  /\ Contains(L[e.owners[k][2][1]], e.owners[k][1]),
      C07_LocalCombination |-> Len(e.coarse) = Len(L) /\ \A i \in 1..Len(L) : LocalSumOne(e, i),
      C07_LocalLevelsValid |-> \A i \in 1..Len(e.coarse) : \A k \in 1..Len(e.coarse[i]) : \A d \in 1..C.D : e.coarse[i][k][2][d] >= 0,
      C07_InterpExact      |-> e.interp_ok,
      C04_MultilinearExact |-> e.multilinear_ok,
      C01_SchemeIsStandard |-> PairSet(e.scheme) = ClosedForm(C.D, C.lmin, e.lmax),
      I_Coarsen            |-> ~C.ispec \/ \A i \in 1..Len(e.coarse) : \A k \in 1..Len(e.coarse[i]) :
                                  LET lv == e.coarse[i][k][1] IN
                                  /\ e.coarse[i][k][3] = Computed(lv, L[i].c, cfOf, e.lmax)
                                  /\ e.coarse[i][k][2] = LocalLevel(lv, L[i].c, cfOf, e.lmax) ]

Strip(L) == [i \in 1..Len(L) |-> [s |-> L[i].s, e |-> L[i].e, c |-> L[i].c, n |-> L[i].n]]
StepClauses(e0, e1) ==
    LET mx == Max({0} \cup ToSet(e1.B))
        sel == {i \in 1..Len(e1.B) : e1.B[i] * C.mden >= C.mnum * mx}
        r == RefineLeaves(Leaves(e0), e0.lmax, sel, cfOf)
    IN  [ I_Step |-> (C.ispec /\ Len(e1.B) = Len(e0.leaves)) => (Strip(r.leaves) = Strip(Leaves(e1)) /\ r.lmax = e1.lmax),
          C07_LmaxMonotone |-> e1.lmax >= e0.lmax ]

Init == /\ tid \in 1..NTraces /\ l = 1
        /\ st = Traces[tid].events[1]
        /\ fails = FailedOf(StateClauses(st), 1)
        /\ Record(tid, Len(Traces[tid].events), 1, fails)
Next == /\ l < Len(T.events) /\ l' = l + 1 /\ tid' = tid
        /\ st' = T.events[l + 1]
        /\ fails' = fails \cup FailedOf(StateClauses(st'), l + 1) \cup FailedOf(StepClauses(st, st'), l + 1)
        /\ Record(tid, Len(T.events), l + 1, fails')
Spec == Init /\ [][Next]_vars
Post == PrintVerdicts
=====================================================================================
