--------------------------------- MODULE BSplineBasis ---------------------------------
(* Exact model of one B-spline basis function of sparseSpACE/BasisFunctions.py (class BSpline): Cox - de Boor       *)
(* recursion, first derivative and integral in rational arithmetic.  Knots are even integers of the lattice          *)
(* 0..L, evaluation points are all integers of the lattice (knots and span midpoints).                              *)
(* One state = one strictly increasing knot vector of P + 2 knots; `vals` / `ders` are the exact values and          *)
(* derivatives at every lattice point - one implementation test per state.                                           *)
(* TLC checks on every knot vector: local support and non-negativity, the derivative is the derivative of the        *)
(* values (fundamental theorem per knot span, Simpson's rule is exact for P <= 3), the integral equals               *)
(* (t_last - t_first) / (P + 1), and - on knot vectors of 2P + 2 knots - the partition of unity.                      *)
EXTENDS Rational, Sequences, FiniteSets
CONSTANTS L,      \* lattice size (even)
          P       \* spline order
VARIABLES knots, vals, ders
vars == <<knots, vals, ders>>
RECURSIVE B(_, _, _, _)
B(kn, p, k, x) ==
    IF x < kn[k] \/ x > kn[k + p + 1] THEN Q(0)
    ELSE IF p = 0 THEN (IF kn[k] <= x /\ x < kn[k + 1] THEN Q(1) ELSE Q(0))
    ELSE RAdd(RMul(Norm(x - kn[k], kn[k + p] - kn[k]), B(kn, p - 1, k, x)),
              RMul(Norm(kn[k + p + 1] - x, kn[k + p + 1] - kn[k + 1]), B(kn, p - 1, k + 1, x)))
(* derivative: p * (B_{k,p-1} / (t_{k+p} - t_k) - B_{k+1,p-1} / (t_{k+p+1} - t_{k+1})) *)
DB(kn, p, k, x) ==
    IF p = 0 THEN Q(0)
    ELSE RSub(RMul(Norm(p, kn[k + p] - kn[k]), B(kn, p - 1, k, x)), RMul(Norm(p, kn[k + p + 1] - kn[k + 1]), B(kn, p - 1, k + 1, x)))
RECURSIVE SortedSeq(_)
SortedSeq(S) == IF S = {} THEN <<>> ELSE LET mn == CHOOSE x \in S : \A y \in S : x <= y IN <<mn>> \o SortedSeq(S \ {mn})
Even == {x \in 0..L : x % 2 = 0}
KnotVectors == {SortedSeq(S) : S \in {T \in SUBSET Even : Cardinality(T) = P + 2}}
Values(kn) == [x \in 0..L |-> B(kn, P, 1, x)]
Derivs(kn) == [x \in 0..L |-> DB(kn, P, 1, x)]
Init == knots \in KnotVectors /\ vals = Values(knots) /\ ders = Derivs(knots)
Next == UNCHANGED vars
Spec == Init /\ [][Next]_vars
(* ------------------------------------------------------------- properties ----------------------------- *)
RECURSIVE SumR(_, _, _)
SumR(F(_), a, b) == IF a > b THEN Q(0) ELSE RAdd(F(a), SumR(F, a + 1, b))
LocalSupport == \A x \in 0..L : (x <= knots[1] \/ x >= knots[P + 2]) => (P = 0 \/ vals[x] = Q(0))
NonNegative == \A x \in 0..L : vals[x][1] >= 0
(* per knot span [s, e] with midpoint m (a lattice point): B(e) - B(s) = (e - s) / 6 * (B'(s) + 4 B'(m) + B'(e)) for P in 2..3, = (e - s) B'(m) for P = 1 *)
DerivativeIsDerivative ==
    \A i \in 1..(P + 1) :
        LET s == knots[i]  e == knots[i + 1]  m == (s + e) \div 2 IN
        IF P = 1 THEN RSub(vals[e], vals[s]) = RMul(Q(e - s), ders[m])
        ELSE IF P <= 3 THEN RSub(vals[e], vals[s]) = RMul(Norm(e - s, 6), RAdd(RAdd(ders[s], RMul(Q(4), ders[m])), ders[e]))
        ELSE TRUE
IntegralClosedForm ==
    P <= 3 => SumR(LAMBDA i : LET s == knots[i]  e == knots[i + 1]  m == (s + e) \div 2 IN
                                RMul(Norm(e - s, 6), RAdd(RAdd(vals[s], RMul(Q(4), vals[m])), vals[e])), 1, P + 1)
              = Norm(knots[P + 2] - knots[1], P + 1)
(* partition of unity on knot vectors of 2P + 2 knots: the P + 1 B-splines sum to one on [t_{P+1}, t_{P+2}] *)
LongVectors == {SortedSeq(S) : S \in {T \in SUBSET Even : Cardinality(T) = 2 * P + 2}}
PartitionOfUnity == \A kn \in LongVectors : \A x \in kn[P + 1]..(kn[P + 2] - 1) : SumR(LAMBDA k : B(kn, P, k, x), 1, P + 1) = Q(1)
ASSUME PartitionOfUnity
=====================================================================================
