----------------------------- MODULE CombiSchemeTrace -----------------------------
(* Trace specification for C01.  A trace is                                              *)
(*   [d, lmin, lmax, fresh, closed: Seq(<<vec, coef>>),                                        *)
(*    events: Seq([v, none, dims, active, old, scheme])]                                  *)
(* events[1] is the state after init_adaptive_combi_scheme (v = <<>>), every later event   *)
(* is the state after one update_adaptive_combi(v) request.  Clauses named P_* are the     *)
(* property; clauses named I_* describe the implementation more closely than the property *)
(* demands (a failure there is reported as drift, not as a violation).                    *)
(* Every event may carry q: Seq(<<vec, is_refinable, has_forward_neighbour>>), answers of   *)
(* the two query methods in the recorded state (I_Queries).  A trace with full = TRUE       *)
(* starts from init_full_grid: the index set is the whole level box, nothing is active.    *)
EXTENDS CombiOps, TraceLib
VARIABLES tid, l, active, old, scheme, fails
vars == <<tid, l, active, old, scheme, fails>>
T == Traces[tid]
Ev(i) == T.events[i]
PairSet(s) == {<<s[i][1], s[i][2]>> : i \in 1..Len(s)}
Index == active \cup old

StateClauses(A, O, S) ==
    LET I == A \cup O IN
    [ P_DownClosed       |-> DownClosed(I, T.lmin),
      P_AboveMin         |-> AboveMin(I, T.lmin),
      P_Disjoint         |-> Disjoint(A, O),
      P_NoActiveFwd      |-> NoActiveFwd(A, I),
      P_SchemeInside     |-> SchemeInside(S, I),
      P_SchemeFunctional |-> SchemeFunctional(S) /\ SchemeNonZero(S),
      P_InclExcl         |-> InclExcl(S, I, T.d, T.lmin),
      P_SumOne           |-> SumOne(S),
      I_SchemeIsStencil  |-> S = CoefSet(I, T.lmin) ]

InitClauses(A, O, S) ==
    [ P_InitIsStandard   |-> A = StdActive(T.d, T.lmin, T.lmax) /\ O = StdOld(T.d, T.lmin, T.lmax),
      P_InitClosedForm   |-> PairSet(T.closed) = S,
      P_ClosedFormValue  |-> PairSet(T.closed) = ClosedForm(T.d, T.lmin, T.lmax) ]

QueryClauses(A, O, e) ==
    [ I_Queries |-> \A i \in 1..Len(e.q) :
                       LET v == e.q[i][1] IN
                       /\ e.q[i][2] = (v \in A)
                       /\ e.q[i][3] = (\E d \in DOMAIN v : Fwd(v, d) \in A \cup O) ]
FullClauses(A, O, S) ==
    [ I_FullGridIsBox    |-> A = {} /\ O = [1..T.d -> T.lmin..T.lmax],
      I_FullGridScheme   |-> S = {<<[i \in 1..T.d |-> T.lmax], 1>>} ]

StepClauses(A, O, A2, O2, e) ==
    LET v == e.v IN
    [ P_OldGrows    |-> O \subseteq O2,
      P_IndexGrows  |-> (A \cup O) \subseteq (A2 \cup O2),
      I_NoopIfNotActive |-> v \notin A => (A2 = A /\ O2 = O /\ e.none),
      I_UpdateRule  |-> v \in A => /\ O2 = O \cup {v}
                                   /\ A2 = (A \ {v}) \cup {Fwd(v, d) : d \in Admissible(v, O2, T.lmin)}
                                   /\ ~e.none
                                   /\ ToSet(e.dims) = {d - 1 : d \in Admissible(v, O2, T.lmin)} ]

Init == /\ tid \in 1..NTraces
        /\ l = 1
        /\ active = ToSet(Traces[tid].events[1].active)
        /\ old = ToSet(Traces[tid].events[1].old)
        /\ scheme = PairSet(Traces[tid].events[1].scheme)
        /\ fails = FailedOf(StateClauses(active, old, scheme), 1) \cup
                   (IF Traces[tid].fresh THEN FailedOf(InitClauses(active, old, scheme), 1) ELSE {}) \cup
                   (IF Traces[tid].full THEN FailedOf(FullClauses(active, old, scheme), 1) ELSE {}) \cup
                   FailedOf(QueryClauses(active, old, Traces[tid].events[1]), 1)
        /\ Record(tid, Len(Traces[tid].events), 1, fails)

Next == /\ l < Len(T.events)
        /\ l' = l + 1 /\ tid' = tid
        /\ IF Ev(l + 1).same
           THEN UNCHANGED <<active, old, scheme>>       \* log compression: projected state identical
           ELSE /\ active' = ToSet(Ev(l + 1).active)
                /\ old' = ToSet(Ev(l + 1).old)
                /\ scheme' = PairSet(Ev(l + 1).scheme)
        /\ fails' = fails \cup (IF Ev(l + 1).same THEN {} ELSE FailedOf(StateClauses(active', old', scheme'), l + 1))
                          \cup FailedOf(StepClauses(active, old, active', old', Ev(l + 1)), l + 1)
                          \cup FailedOf(QueryClauses(active', old', Ev(l + 1)), l + 1)
        /\ Record(tid, Len(T.events), l + 1, fails')

Spec == Init /\ [][Next]_vars
Post == PrintVerdicts
=====================================================================================
