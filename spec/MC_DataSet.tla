---- MODULE MC_DataSet ----
EXTENDS DataSet
Mk(xs, ls) == [xs |-> xs, ls |-> ls, scaled |-> FALSE, rng |-> <<>>, base |-> xs]
MCInits == { Mk(<<Q(0), Q(2), Q(4)>>, <<0, 1, -1>>),
             Mk(<<Q(1), Q(1), Q(3), Q(3)>>, <<0, 1, 0, 1>>),
             Mk(<<Q(2)>>, <<0>>),
             Mk(<<Q(3), Q(0)>>, <<1, 0>>) }
====
