--------------------------------- MODULE HierBasisTrace ---------------------------------
(* Trace specification for C10.  One trace = one hierarchical basis grid built by the library on lattice        *)
(* coordinates (a tensor of dyadic trees or regular level grids), order P, with integer nodal values; the library's  *)
(* outputs are snapped to integers by the harness (they are integers whenever the property holds):                 *)
(*   [k |-> "roundtrip", vin, vback: Seq(Seq(Int))]    values per output component at all grid points, before      *)
(*                                                      hierarchisation and after interpolating back               *)
(*   [k |-> "kronecker", knots: Seq(Int), index, vals: Seq(Int), model: BOOLEAN]  a Lagrange basis object evaluated   *)
(*                                                      at its own knots; model = the knots are those of            *)
(*                                                      GlobalLagrangeGrid with boundary points (HierLagrangeOps)    *)
(*   [k |-> "poly", deg, xs: Seq(Int), got: Seq(Int)]   interpolant of the monomial t^deg at lattice points xs        *)
EXTENDS HierLagrangeOps, TraceLib
VARIABLES tid, l, fails
vars == <<tid, l, fails>>
T == Traces[tid]
Clauses(e) ==
    CASE e.k = "roundtrip" -> [ C10_RoundTrip |-> e.vin = e.vback ]
      [] e.k = "kronecker" ->
           [ C10_Kronecker |-> Len(e.vals) = Len(e.knots) /\ \A j \in 1..Len(e.knots) : e.vals[j] = (IF j = e.index THEN 1 ELSE 0),
             I_KnotsEqualSpec |-> e.model => e.knots = Knots(e.knots[e.index]) ]
      [] e.k = "poly" -> [ C10_PolyReproduced |-> Len(e.got) = Len(e.xs) /\ \A i \in 1..Len(e.xs) : e.got[i] = Pw(e.xs[i], e.deg) ]
      [] OTHER -> [ C10_Event |-> FALSE ]
Init == /\ tid \in 1..NTraces /\ l = 0 /\ fails = {}
        /\ Record(tid, Len(Traces[tid].events), 0, {})
Next == /\ l < Len(T.events) /\ l' = l + 1 /\ tid' = tid
        /\ fails' = fails \cup FailedOf(Clauses(T.events[l + 1]), l + 1)
        /\ Record(tid, Len(T.events), l + 1, fails')
Spec == Init /\ [][Next]_vars
Post == PrintVerdicts
=====================================================================================
