--------------------------------- MODULE CombiOps ---------------------------------
(* Pure operators shared by the model-checking specification (CombiScheme.tla), by the      *)
(* trace specification (CombiSchemeTrace.tla) and by every module that embeds a scheme      *)
(* (DimWise, ExtendSplit).  Level vectors are functions 1..D -> Nat (TLC prints tuples).     *)
(* A scheme is a set of pairs <<levelvector, coefficient>>.                                 *)
EXTENDS Integers, FiniteSets, Sequences, FiniteSetsExt, TLC

RECURSIVE SumTo(_, _)
SumTo(v, i) == IF i = 0 THEN 0 ELSE v[i] + SumTo(v, i - 1)
SumV(v) == SumTo(v, Len(v))

Fwd(v, d) == [v EXCEPT ![d] = @ + 1]
Bwd(v, d) == [v EXCEPT ![d] = @ - 1]
Geq(v, w) == \A d \in DOMAIN v : v[d] >= w[d]

RECURSIVE Binom(_, _)
Binom(n, k) == IF k = 0 \/ k = n THEN 1 ELSE IF k < 0 \/ k > n THEN 0 ELSE Binom(n - 1, k - 1) + Binom(n - 1, k)

MinI(a, b) == IF a < b THEN a ELSE b
MaxI(a, b) == IF a > b THEN a ELSE b

(* ---------- the standard scheme, stated declaratively (not as the code's recursion) ------ *)
StdActive(D, lmin, lmax) == {v \in [1..D -> lmin..lmax] : SumV(v) = lmax + (D - 1) * lmin}
StdOld(D, lmin, lmax)    == {v \in [1..D -> lmin..lmax] : SumV(v) < lmax + (D - 1) * lmin}
ClosedForm(D, lmin, lmax) ==
    UNION { { <<v, (IF q % 2 = 0 THEN 1 ELSE -1) * Binom(D - 1, q)>> :
                v \in {w \in [1..D -> lmin..lmax] : SumV(w) = lmax + (D - 1) * lmin - q} } :
            q \in 0..(MinI(D, lmax - lmin + 1) - 1) }

(* ---------- update rule (implementation shaped) ------------------------------------------ *)
(* dimensions in which the forward neighbour of v may be added, given the new old set O      *)
Admissible(v, O, lmin) ==
    {d \in DOMAIN v : \A k \in DOMAIN v : LET b == Bwd(Fwd(v, d), k) IN b[k] < lmin \/ b \in O}

(* coefficient of w: stencil sum over the index set I; the stencil of a grid g reaches g - e  *)
(* only in dimensions where g[d] > lmin                                                     *)
Sign(S) == IF Cardinality(S) % 2 = 0 THEN 1 ELSE -1
CoefOf(I, w, lmin) ==
    LET Es == {e \in SUBSET DOMAIN w :
                 /\ [d \in DOMAIN w |-> IF d \in e THEN w[d] + 1 ELSE w[d]] \in I
                 /\ \A d \in e : w[d] + 1 > lmin}
    IN  FoldSet(LAMBDA e, acc : acc + Sign(e), 0, Es)
Candidates(I, lmin) ==
    UNION { { [d \in DOMAIN g |-> IF d \in e THEN g[d] - 1 ELSE g[d]] :
                e \in SUBSET {d \in DOMAIN g : g[d] > lmin} } : g \in I }
CoefSet(I, lmin) ==
    {p \in { <<w, CoefOf(I, w, lmin)>> : w \in Candidates(I, lmin) } : p[2] # 0}

(* ---------- property clauses (P level) --------------------------------------------------- *)
DownClosed(I, lmin) == \A v \in I : \A d \in DOMAIN v : v[d] > lmin => Bwd(v, d) \in I
AboveMin(I, lmin)   == \A v \in I : \A d \in DOMAIN v : v[d] >= lmin
Disjoint(A, O)      == A \cap O = {}
NoActiveFwd(A, I)   == \A v \in A : \A d \in DOMAIN v : Fwd(v, d) \notin I
SchemeInside(S, I)  == \A p \in S : p[1] \in I
SchemeFunctional(S) == \A p, q \in S : p[1] = q[1] => p = q
SchemeNonZero(S)    == \A p \in S : p[2] # 0
DominatingSum(S, l) == FoldSet(LAMBDA p, acc : acc + p[2], 0, {p \in S : Geq(p[1], l)})
(* the probe box: every level vector between lmin and one above the largest level present   *)
TopLevel(I, S, d, lmin) ==
    LET Ls == {v[d] : v \in I} \cup {p[1][d] : p \in S} IN IF Ls = {} THEN lmin ELSE MaxI(lmin, Max(Ls))
ProbeBox(I, S, D, lmin) == {l \in [1..D -> lmin..(Max({TopLevel(I, S, d, lmin) : d \in 1..D}) + 1)] :
                              \A d \in 1..D : l[d] <= TopLevel(I, S, d, lmin) + 1}
InclExcl(S, I, D, lmin) ==
    \A l \in ProbeBox(I, S, D, lmin) : DominatingSum(S, l) = (IF l \in I THEN 1 ELSE 0)
SumOne(S) == FoldSet(LAMBDA p, acc : acc + p[2], 0, S) = 1
=====================================================================================
