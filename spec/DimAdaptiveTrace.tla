------------------------------ MODULE DimAdaptiveTrace ------------------------------
(* Trace specification of DimAdaptiveCombi.perform_combi (control loop of DimAdaptive.tla). *)
(* A trace is [d, lmin, lmax, events]; the events recorded from the real loop are           *)
(*   [k |-> "E", scheme, res_comb, mid_comb]  start of an evaluation round: scheme taken     *)
(*                        from getCombiScheme; harness booleans: res_comb (last round, the   *)
(*                        one the run stopped at): reported value = coefficient-weighted     *)
(*                        sum of fresh component integrals over this scheme; mid_comb        *)
(*                        (earlier rounds): the recorded error entry is the deviation of     *)
(*                        that sum from the reference                                        *)
(*   [k |-> "I", v]       grid.integrate on level vector v (a cache miss)                   *)
(*   [k |-> "S", v]       calculate_surplus for grid v                                      *)
(*   [k |-> "U", v, none, dims, active, old]   update request and the sets after it          *)
(*   [k |-> "Ret", scheme, final_comb, stop_due, nerr, nnp, nevals]                         *)
(* C05_* clauses are the property (the value reported at the stop is the combination over   *)
(* the current scheme); C01_* clauses belong to C01 and are decided there; I_* clauses        *)
(* describe the loop as DimAdaptive.tla has it - stop rule, array lengths, cache use (drift). *)
EXTENDS CombiOps, TraceLib
VARIABLES tid, l, active, old, cache, cur, pc, fails
vars == <<tid, l, active, old, cache, cur, pc, fails>>
T == Traces[tid]
Ev(i) == T.events[i]
PairSet(s) == {<<s[i][1], s[i][2]>> : i \in 1..Len(s)}
Index == active \cup old
Grids(S) == {p[1] : p \in S}
Stencil(g) == { [d \in DOMAIN g |-> IF d \in e THEN g[d] - 1 ELSE g[d]] : e \in SUBSET {d \in DOMAIN g : g[d] > T.lmin} }

Clauses(e) ==
    CASE e.k = "E" ->
           [ C01_SchemeIsInclExcl    |-> InclExcl(PairSet(e.scheme), Index, T.d, T.lmin) /\ SchemeInside(PairSet(e.scheme), Index),
             C05_ResultIsCombination |-> e.res_comb,
             I_RoundIsCombination    |-> e.mid_comb,
             I_SchemeIsStencil       |-> PairSet(e.scheme) = CoefSet(Index, T.lmin),
             I_Order                 |-> pc \in {"start", "refine"} ]
      [] e.k = "I" ->
           [ I_IntegratedOnce        |-> e.v \notin cache,
             I_IntegratesSchemeOrStencil |-> e.v \in Grids(cur) \cup UNION {Stencil(g) : g \in Grids(cur) \cap active} ]
      [] e.k = "S" ->
           [ I_SurplusOfRefinable    |-> e.v \in active /\ e.v \in Grids(cur),
             I_SchemeIntegratedFirst |-> Grids(cur) \subseteq cache ]
      [] e.k = "U" ->
           [ C01_OldGrows     |-> old \subseteq ToSet(e.old) /\ Index \subseteq (ToSet(e.active) \cup ToSet(e.old)),
             C01_DownClosed   |-> DownClosed(ToSet(e.active) \cup ToSet(e.old), T.lmin),
             C01_Disjoint     |-> Disjoint(ToSet(e.active), ToSet(e.old)),
             C01_NoActiveFwd  |-> NoActiveFwd(ToSet(e.active), ToSet(e.active) \cup ToSet(e.old)),
             I_RequestsSchemeGrid |-> e.v \in Grids(cur),
             I_UpdateRule     |-> IF e.v \in active
                                  THEN /\ ToSet(e.old) = old \cup {e.v}
                                       /\ ToSet(e.active) = (active \ {e.v}) \cup {Fwd(e.v, d) : d \in Admissible(e.v, old \cup {e.v}, T.lmin)}
                                       /\ ~e.none
                                  ELSE e.none /\ ToSet(e.active) = active /\ ToSet(e.old) = old ]
      [] e.k = "Ret" ->
           [ C05_FinalIsCombination  |-> e.final_comb,
             I_FinalSchemeCurrent    |-> PairSet(e.scheme) = cur /\ InclExcl(PairSet(e.scheme), Index, T.d, T.lmin),
             I_AllSummandsComputed   |-> Grids(PairSet(e.scheme)) \subseteq cache,
             I_StopsOnlyWhenDue      |-> e.stop_due,
             I_ArraysAligned         |-> e.nerr = e.nevals - 1 /\ e.nnp = e.nevals - 1,
             I_Order                 |-> pc = "eval" ]

Init == /\ tid \in 1..NTraces /\ l = 0
        /\ active = StdActive(Traces[tid].d, Traces[tid].lmin, Traces[tid].lmax)
        /\ old = StdOld(Traces[tid].d, Traces[tid].lmin, Traces[tid].lmax)
        /\ cache = {} /\ cur = {} /\ pc = "start" /\ fails = {}
        /\ Record(tid, Len(Traces[tid].events), 0, fails)
Next == /\ l < Len(T.events)
        /\ l' = l + 1 /\ tid' = tid
        /\ LET e == Ev(l + 1) IN
             /\ fails' = fails \cup FailedOf(Clauses(e), l + 1)
             /\ active' = IF e.k = "U" THEN ToSet(e.active) ELSE active
             /\ old' = IF e.k = "U" THEN ToSet(e.old) ELSE old
             /\ cache' = IF e.k = "I" THEN cache \cup {e.v} ELSE cache
             /\ cur' = IF e.k = "E" THEN PairSet(e.scheme) ELSE cur
             /\ pc' = CASE e.k = "E" -> "eval" [] e.k = "U" -> "refine" [] e.k = "Ret" -> "done" [] OTHER -> pc
        /\ Record(tid, Len(T.events), l + 1, fails')
Spec == Init /\ [][Next]_vars
Post == PrintVerdicts
=====================================================================================
