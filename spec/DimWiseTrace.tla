-------------------------------- MODULE DimWiseTrace --------------------------------
(* Trace specification for the dimension-wise strategy (properties C03, C04, C06 and the  *)
(* embedded C01 clauses).  A trace is                                                      *)
(*   [cfg: [D, lmin, lmax, version, rebalancing, boundary, mnum, mden, sfn, sfd, lat, hats],*)
(*    events: Seq([B, tree, lmax, active, old, scheme, P, grids, interp_ok, hats_ok,       *)
(*                 aborted])]                                                              *)
(* One event per evaluation of the adaptive loop; B holds the (integer) benefits that were *)
(* in force for the refinement step leading to the event (empty for the first event).      *)
(*   tree[d]   : Seq([s, e, ls, le, c])   intervals as stored by the library               *)
(*   P[d]      : Seq(Seq(Int))  point list of dimension d for levels lmin..lmax[d]          *)
(*   grids     : Seq(<<levelvector, Seq(Seq(Int))>>)  the 1-D point lists the library uses  *)
(*               for every component grid of the scheme                                    *)
(*   interp_ok : the combined interpolant reproduced an arbitrary function at every point   *)
(*               of the combined grid (evaluated numerically by the harness)               *)
(*   hats_ok   : every hat of the initial space was integrated and interpolated exactly      *)
(* Clauses are named <property>_<clause>; I_* clauses compare with the implementation-       *)
(* shaped specification (DimWiseOps) and only indicate drift.                               *)
EXTENDS DimWiseOps, TraceLib
VARIABLES tid, l, st, fails
vars == <<tid, l, st, fails>>
T == Traces[tid]
C == T.cfg
Ev(i) == T.events[i]
PairSet(s) == {<<s[i][1], s[i][2]>> : i \in 1..Len(s)}
cfOf == [D |-> C.D, lmin |-> C.lmin, version |-> C.version, boundary |-> C.boundary]

(* point sequence (position, level) derived from the stored intervals *)
PointSeq(ivs) == [i \in 1..(Len(ivs) + 1) |-> IF i = 1 THEN [p |-> ivs[1].s, lv |-> ivs[1].ls]
                                                    ELSE [p |-> ivs[i - 1].e, lv |-> ivs[i - 1].le]]
Trees(e) == [d \in 1..C.D |-> PointSeq(e.tree[d])]
PTable(e) == [d \in 1..C.D |-> [lv \in C.lmin..(C.lmin + Len(e.P[d]) - 1) |-> ToSet(e.P[d][lv - C.lmin + 1])]]
IsSorted(s) == \A i \in 1..(Len(s) - 1) : s[i] < s[i + 1]

StateClauses(e) ==
    LET A == ToSet(e.active)
        O == ToSet(e.old)
        I == A \cup O
        S == PairSet(e.scheme)
        tr == Trees(e)
        P == PTable(e)
        lm == e.lmax
        GDim(g, d) == IF C.boundary THEN ToSet(g[2][d]) ELSE ToSet(g[2][d]) \ {0, C.lat}
        GridSet(g) == TensorSet([d \in 1..C.D |-> GDim(g, d)], C.D)
        InGrid(x, g) == \A d \in 1..C.D : x[d] \in GDim(g, d)
        U == UNION {GridSet(e.grids[k]) : k \in 1..Len(e.grids)}
        within == \A p \in S : \A d \in 1..C.D : p[1][d] <= lm[d] /\ p[1][d] >= C.lmin
    IN
    [ C06_Tiling      |-> \A d \in 1..C.D : LET iv == e.tree[d] IN
                             /\ iv[1].s = 0 /\ iv[Len(iv)].e = C.lat
                             /\ \A i \in 1..Len(iv) : iv[i].s < iv[i].e
                             /\ \A i \in 1..(Len(iv) - 1) : iv[i].e = iv[i + 1].s,
      C06_LevelAgree  |-> \A d \in 1..C.D : LET iv == e.tree[d] IN \A i \in 1..(Len(iv) - 1) : iv[i].le = iv[i + 1].ls,
      C06_EndLevels   |-> \A d \in 1..C.D : EndLevelsZero(tr[d]),
      C06_BinaryTree  |-> \A d \in 1..C.D : BinaryTreeLevels(tr[d]),
      C06_CoarseningEq |-> \A d \in 1..C.D : LET iv == e.tree[d] IN
                             \A i \in 1..Len(iv) : iv[i].c = lm[d] - MaxI(iv[i].ls, iv[i].le),
      C06_CoarseningNonNeg |-> \A d \in 1..C.D : \A i \in 1..Len(e.tree[d]) : e.tree[d][i].c >= 0,
      C06_LmaxCovers  |-> \A d \in 1..C.D : lm[d] >= MaxLv(tr[d]),
      C06_NoAbort     |-> ~e.aborted,
      C01_DownClosed  |-> DownClosed(I, C.lmin) /\ AboveMin(I, C.lmin),
      C01_Disjoint    |-> Disjoint(A, O) /\ NoActiveFwd(A, I),
      C01_SchemeInside |-> SchemeInside(S, I) /\ SchemeFunctional(S),
      C01_InclExcl    |-> InclExcl(S, I, C.D, C.lmin),
      C03_SchemeLevels |-> within /\ Len(e.grids) = Cardinality(S),
      C03_ContainsEnds |-> \A k \in 1..Len(e.grids) : \A d \in 1..C.D :
                              LET s == e.grids[k][2][d] IN Len(s) >= 2 /\ s[1] = 0 /\ s[Len(s)] = C.lat,
      C03_Sorted      |-> \A k \in 1..Len(e.grids) : \A d \in 1..C.D : IsSorted(e.grids[k][2][d]),
      C03_DependsOnlyOnDimLevel |-> within => \A k \in 1..Len(e.grids) : \A d \in 1..C.D :
                              ToSet(e.grids[k][2][d]) = P[d][e.grids[k][1][d]],
      C03_Monotone    |-> \A d \in 1..C.D : \A lv \in DOMAIN P[d] : (lv + 1) \in DOMAIN P[d] => P[d][lv] \subseteq P[d][lv + 1],
      C03_PointsFromTree |-> \A d \in 1..C.D : \A lv \in DOMAIN P[d] : P[d][lv] \subseteq Positions(tr[d]),
      C03_CoeffSumOne |-> \A x \in U : FoldSet(LAMBDA k, acc : acc + e.grids[k][3], 0, {k \in 1..Len(e.grids) : InGrid(x, e.grids[k])}) = 1,
      C03_InterpExact |-> e.interp_ok,
      C04_HatsExact   |-> \A i \in 1..Len(e.hats_ok) : e.hats_ok[i],
      I_PointSets     |-> within => \A d \in 1..C.D : \A lv \in DOMAIN P[d] : P[d][lv] = PointSet(cfOf, tr, lm, d, lv),
      I_SchemeIsStencil |-> S = CoefSet(I, C.lmin),
      I_C04_Criterion |-> (within /\ Len(e.hats_ok) = Len(C.hats) /\ \A d \in 1..C.D : DOMAIN P[d] = C.lmin..lm[d]) =>
                             \A i \in 1..Len(C.hats) :
                                 HatExact(P, I, [d \in 1..C.D |-> <<C.hats[i][d][1], C.hats[i][d][2]>>], C.D, C.lmin, lm, C.lat) <=> e.hats_ok[i] ]

InitClauses(e) ==
    [ C06_InitialTree |-> \A d \in 1..C.D : Trees(e)[d] = InitTree(C.lmax, C.lat),
      C01_InitIsStandard |-> ToSet(e.active) = StdActive(C.D, C.lmin, C.lmax) /\ ToSet(e.old) = StdOld(C.D, C.lmin, C.lmax) ]

(* selection demanded by the property: exactly the intervals whose benefit reaches margin * max benefit *)
Selected(e0, e1) ==
    LET mx == Max({0} \cup UNION {ToSet(e1.B[d]) : d \in 1..C.D})
    IN  [d \in 1..C.D |-> {i \in 1..Len(e1.B[d]) : e1.B[d][i] * C.mden >= C.mnum * mx}]
StepClauses(e0, e1) ==
    LET sel == Selected(e0, e1)
        tr0 == Trees(e0)
        tr1 == Trees(e1)
        mids(d) == {(tr0[d][i].p + tr0[d][i + 1].p) \div 2 : i \in sel[d]}
        aligned == \A d \in 1..C.D : Len(e1.B[d]) = Len(e0.tree[d])
        split == [d \in 1..C.D |-> SplitTree(tr0[d], sel[d])]
        ISpec(tie) ==
            LET ok == ~C.rebalancing \/ \A d \in 1..C.D : RebalanceOK(split[d], C.sfn, C.sfd, tie)
                tr2 == IF C.rebalancing /\ ok THEN [d \in 1..C.D |-> RebalanceTree(split[d], C.sfn, C.sfd, tie)] ELSE split
                r == RaiseFrom(1, tr2, e0.lmax, ToSet(e0.active), ToSet(e0.old), C.lmin, C.D)
            IN  IF ~ok THEN e1.aborted
                ELSE /\ tr1 = tr2 /\ e1.lmax = r.lmax
                     /\ ToSet(e1.active) = r.active /\ ToSet(e1.old) = r.old
    IN
    [ C06_SelectionExact |-> aligned /\ (e1.aborted \/ \A d \in 1..C.D : Positions(tr1[d]) = Positions(tr0[d]) \cup mids(d)),
      C01_Grows          |-> ToSet(e0.old) \subseteq ToSet(e1.old) /\
                             (ToSet(e0.old) \cup ToSet(e0.active)) \subseteq (ToSet(e1.old) \cup ToSet(e1.active)),
      C06_LmaxMonotone   |-> \A d \in 1..C.D : e1.lmax[d] >= e0.lmax[d],
      I_Step             |-> aligned => \E tie \in BOOLEAN \X BOOLEAN : ISpec(tie) ]

Init == /\ tid \in 1..NTraces
        /\ l = 1
        /\ st = Traces[tid].events[1]
        /\ fails = FailedOf(StateClauses(st), 1) \cup (IF Traces[tid].fresh THEN FailedOf(InitClauses(st), 1) ELSE {})
        /\ Record(tid, Len(Traces[tid].events), 1, fails)

Next == /\ l < Len(T.events)
        /\ l' = l + 1 /\ tid' = tid
        /\ st' = Ev(l + 1)
        /\ fails' = fails \cup FailedOf(StateClauses(st'), l + 1) \cup FailedOf(StepClauses(st, st'), l + 1)
        /\ Record(tid, Len(T.events), l + 1, fails')

Spec == Init /\ [][Next]_vars
Post == PrintVerdicts
=====================================================================================
