---------------------------------- MODULE Clustering ----------------------------------
(* Graph phase of density based clustering (sparseSpACE/DEMachineLearning.py, class        *)
(* Clustering: _compute_nearest_neighbors_connected, _compute_nearest_neighbors_noise,       *)
(* _compute_connected_components, _label_samples).  Samples are 1..N.                       *)
(*   BuildGraph  the nearest-neighbour graph: any set of undirected edges in which every    *)
(*               sample has at least K neighbours (the geometry is abstracted)              *)
(*   Cut         edges whose midpoint density is below the threshold are removed (any       *)
(*               subset survives)                                                          *)
(*   Noise       samples left without an edge are noise; each gets exactly one edge to a    *)
(*               sample that kept an edge (its nearest one: any); if no sample kept an edge  *)
(*               every sample is its own cluster                                           *)
(*   Components  connected components of the remaining graph, ordered by smallest member    *)
(*   Label       sample i gets the position of its component                               *)
(* Not tied to one of the listed properties; bound to the code by trace validation          *)
(* (ClusteringTrace.tla), differences are reported as DRIFT.                               *)
EXTENDS Integers, FiniteSets, Sequences, FiniteSetsExt
CONSTANTS N, K
VARIABLES phase, allE, connE, noiseE, comps, label
vars == <<phase, allE, connE, noiseE, comps, label>>
Nodes == 1..N
Edges == {e \in Nodes \X Nodes : e[1] < e[2]}
Ends(E) == {e[1] : e \in E} \cup {e[2] : e \in E}
Nbrs(E, i) == {e[2] : e \in {f \in E : f[1] = i}} \cup {e[1] : e \in {f \in E : f[2] = i}}

RECURSIVE Reach(_, _)
Reach(E, S) == LET S2 == S \cup UNION {Nbrs(E, i) : i \in S} IN IF S2 = S THEN S ELSE Reach(E, S2)
Components(E) == {Reach(E, {i}) : i \in Nodes}
(* components in the order of their smallest member, as the depth-first search produces them *)
RECURSIVE Ordered(_)
Ordered(Cs) == IF Cs = {} THEN <<>>
               ELSE LET c == CHOOSE x \in Cs : \A y \in Cs : Min(x) <= Min(y) IN <<c>> \o Ordered(Cs \ {c})

Init == phase = "start" /\ allE = {} /\ connE = {} /\ noiseE = {} /\ comps = <<>> /\ label = <<>>
BuildGraph == /\ phase = "start" /\ phase' = "graph"
              /\ allE' \in {E \in SUBSET Edges : \A i \in Nodes : Cardinality(Nbrs(E, i)) >= K}
              /\ UNCHANGED <<connE, noiseE, comps, label>>
Cut == /\ phase = "graph" /\ phase' = "cut"
       /\ connE' \in SUBSET allE
       /\ UNCHANGED <<allE, noiseE, comps, label>>
Singles == Nodes \ Ends(connE)
Noise == /\ phase = "cut" /\ phase' = "noise"
         /\ IF connE = {} THEN noiseE' = {}
            ELSE \E f \in [Singles -> Ends(connE)] : noiseE' = {<<s, f[s]>> : s \in Singles}
         /\ UNCHANGED <<allE, connE, comps, label>>
(* noise edges are directed (sample, attachment): undirected view for the search *)
Und(E) == {IF e[1] < e[2] THEN e ELSE <<e[2], e[1]>> : e \in E}
Remaining == connE \cup Und(noiseE)
FindComponents == /\ phase = "noise" /\ phase' = "components"
                  /\ comps' = Ordered(Components(Remaining))
                  /\ UNCHANGED <<allE, connE, noiseE, label>>
Label == /\ phase = "components" /\ phase' = "done"
         /\ label' = [i \in Nodes |-> CHOOSE k \in 1..Len(comps) : i \in comps[k]]
         /\ UNCHANGED <<allE, connE, noiseE, comps>>
Next == BuildGraph \/ Cut \/ Noise \/ FindComponents \/ Label
Spec == Init /\ [][Next]_vars

(* ---------------- invariants ---------------- *)
Done == phase = "done"
X_Partition == Done => /\ UNION {comps[k] : k \in 1..Len(comps)} = Nodes
                       /\ \A a, b \in 1..Len(comps) : a # b => comps[a] \cap comps[b] = {}
X_SameLabelIffConnected == Done => \A i, j \in Nodes : (label[i] = label[j]) <=> (j \in Reach(Remaining, {i}))
(* attaching noise never merges two clusters and never creates a new one *)
X_NoiseKeepsClusters == (Done /\ connE # {}) =>
    Cardinality({Reach(connE, {i}) : i \in Ends(connE)}) = Len(comps)
X_NoiseAttachedOnce == (phase \in {"noise", "components", "done"} /\ connE # {}) =>
    \A s \in Singles : Cardinality({e \in noiseE : e[1] = s}) = 1 /\ \A e \in noiseE : e[1] = s => e[2] \in Ends(connE)
X_AllNoiseAllSingletons == (Done /\ connE = {}) => Len(comps) = N
=====================================================================================
