---- MODULE MC_SparseGrid ----
EXTENDS SparseGrid
Cfgs(maxD, maxL) == {[D |-> d, lmin |-> a, lmax |-> b, bnd |-> x] : d \in 1..maxD, a \in 1..maxL, b \in 1..maxL, x \in BOOLEAN}
QuickCfgs == {c \in Cfgs(3, 3) : c.lmin <= c.lmax /\ (c.D = 3 => c.lmax <= 2 \/ (c.lmin = 1 /\ c.lmax = 3))}
ThoroughCfgs == {c \in Cfgs(3, 4) : c.lmin <= c.lmax /\ (c.D = 3 => c.lmax - c.lmin <= 2)}
====
