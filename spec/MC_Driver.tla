---- MODULE MC_Driver ----
EXTENDS Driver
Lims == {[minE |-> a, maxE |-> b] : a \in {1, 3}, b \in {-1, 0, 2, 4}}
====
