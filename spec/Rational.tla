----------------------------------- MODULE Rational -----------------------------------
(* Small exact rationals <<num, den>> with den > 0, always kept in lowest terms.           *)
(* Intended for values whose numerators/denominators stay far below 2^31 (TLC integers).    *)
EXTENDS Integers, TLC
RECURSIVE Gcd(_, _)
Gcd(a, b) == IF b = 0 THEN (IF a < 0 THEN -a ELSE a) ELSE Gcd(b, a % b)
Norm(n, d) == LET s == IF d < 0 THEN -1 ELSE 1
                  g == Gcd(IF n < 0 THEN -n ELSE n, IF d < 0 THEN -d ELSE d)
              IN  IF n = 0 THEN <<0, 1>> ELSE <<(s * n) \div g, (s * d) \div g>>
Q(n) == <<n, 1>>
RAdd(a, b) == Norm(a[1] * b[2] + b[1] * a[2], a[2] * b[2])
RSub(a, b) == Norm(a[1] * b[2] - b[1] * a[2], a[2] * b[2])
RMul(a, b) == Norm(a[1] * b[1], a[2] * b[2])
RDiv(a, b) == Norm(a[1] * b[2], a[2] * b[1])
RLt(a, b) == a[1] * b[2] < b[1] * a[2]
RLe(a, b) == a[1] * b[2] <= b[1] * a[2]
RMinOf(S) == CHOOSE x \in S : \A y \in S : RLe(x, y)
RMaxOf(S) == CHOOSE x \in S : \A y \in S : RLe(y, x)
=====================================================================================
