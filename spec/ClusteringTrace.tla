------------------------------- MODULE ClusteringTrace -------------------------------
(* Trace specification for the graph phase of Clustering (model: Clustering.tla).  A trace  *)
(* is [n, k, events] with one event per phase, recorded from a real Clustering object after *)
(* perform_clustering (samples are numbered from 1):                                        *)
(*   [ph |-> "graph", edges, knn_ok]      all nearest-neighbour edges; knn_ok: harness check *)
(*                                        that each edge joins a sample with one of its k   *)
(*                                        nearest and no nearest neighbour is missing        *)
(*   [ph |-> "cut", conn, dense]          edges kept; dense: the edges whose midpoint density *)
(*                                        fraction exceeds the threshold (recomputed)        *)
(*   [ph |-> "noise", singles, noise, nearest]  noise samples, their attachment edges <<s,t>>, *)
(*                                        nearest: <<s, candidates>> nearest kept samples     *)
(*   [ph |-> "comps", comps]              connected components as the library lists them      *)
(*   [ph |-> "label", labels]             label per sample (numbered from 1)                  *)
(* All clauses are X_ clauses: behaviour beyond the listed properties, reported as drift.    *)
EXTENDS Integers, FiniteSets, Sequences, FiniteSetsExt, TraceLib
VARIABLES tid, l, allE, connE, noiseE, comps, fails
vars == <<tid, l, allE, connE, noiseE, comps, fails>>
T == Traces[tid]
Ev(i) == T.events[i]
Nodes == 1..T.n
Pairs(s) == {<<s[i][1], s[i][2]>> : i \in 1..Len(s)}
Ends(E) == {e[1] : e \in E} \cup {e[2] : e \in E}
Nbrs(E, i) == {e[2] : e \in {f \in E : f[1] = i}} \cup {e[1] : e \in {f \in E : f[2] = i}}
RECURSIVE Reach(_, _)
Reach(E, S) == LET S2 == S \cup UNION {Nbrs(E, i) : i \in S} IN IF S2 = S THEN S ELSE Reach(E, S2)
Components(E) == {Reach(E, {i}) : i \in Nodes}
RECURSIVE Ordered(_)
Ordered(Cs) == IF Cs = {} THEN <<>>
               ELSE LET c == CHOOSE x \in Cs : \A y \in Cs : Min(x) <= Min(y) IN <<c>> \o Ordered(Cs \ {c})
Und(E) == {IF e[1] < e[2] THEN e ELSE <<e[2], e[1]>> : e \in E}
Remaining == connE \cup Und(noiseE)
MinI(a, b) == IF a < b THEN a ELSE b

Clauses(e) ==
    CASE e.ph = "graph" ->
           LET E == Pairs(e.edges) IN
           [ X_EdgesWellFormed |-> \A p \in E : p[1] \in Nodes /\ p[2] \in Nodes /\ p[1] < p[2],
             X_KnnGraph        |-> e.knn_ok,
             X_MinDegree       |-> \A i \in Nodes : Cardinality(Nbrs(E, i)) >= MinI(T.k, T.n - 1) ]
      [] e.ph = "cut" ->
           [ X_CutSubset |-> Pairs(e.conn) \subseteq allE,
             X_CutRule   |-> Pairs(e.conn) = Pairs(e.dense) ]
      [] e.ph = "noise" ->
           LET Sg == ToSet(e.singles)
               NE == Pairs(e.noise)
           IN
           [ X_Singles           |-> Sg = Nodes \ Ends(connE),
             X_NoiseAttachedOnce |-> connE # {} => \A s \in Sg : Cardinality({p \in NE : p[1] = s}) = 1,
             X_NoiseToKept       |-> \A p \in NE : p[1] \in Sg /\ p[2] \in Ends(connE),
             X_NoiseNearest      |-> \A p \in NE : \E i \in 1..Len(e.nearest) : e.nearest[i][1] = p[1] /\ p[2] \in ToSet(e.nearest[i][2]) ]
      [] e.ph = "comps" ->
           LET C == [i \in 1..Len(e.comps) |-> ToSet(e.comps[i])] IN
           [ X_Partition  |-> /\ UNION {C[i] : i \in 1..Len(C)} = Nodes
                              /\ \A a, b \in 1..Len(C) : a # b => C[a] \cap C[b] = {},
             X_Components |-> IF connE = {} THEN C = [i \in Nodes |-> {i}] ELSE C = Ordered(Components(Remaining)),
             X_NoiseKeepsClusters |-> connE # {} => Cardinality({Reach(connE, {i}) : i \in Ends(connE)}) = Len(C) ]
      [] e.ph = "label" ->
           [ X_Labels |-> /\ Len(e.labels) = T.n
                          /\ \A i \in Nodes : e.labels[i] \in 1..Len(comps) /\ i \in comps[e.labels[i]] ]

Init == /\ tid \in 1..NTraces /\ l = 0
        /\ allE = {} /\ connE = {} /\ noiseE = {} /\ comps = <<>> /\ fails = {}
        /\ Record(tid, Len(Traces[tid].events), 0, fails)
Next == /\ l < Len(T.events)
        /\ l' = l + 1 /\ tid' = tid
        /\ LET e == Ev(l + 1) IN
             /\ fails' = fails \cup FailedOf(Clauses(e), l + 1)
             /\ allE' = IF e.ph = "graph" THEN Pairs(e.edges) ELSE allE
             /\ connE' = IF e.ph = "cut" THEN Pairs(e.conn) ELSE connE
             /\ noiseE' = IF e.ph = "noise" THEN Pairs(e.noise) ELSE noiseE
             /\ comps' = IF e.ph = "comps" THEN [i \in 1..Len(e.comps) |-> ToSet(e.comps[i])] ELSE comps
        /\ Record(tid, Len(T.events), l + 1, fails')
Spec == Init /\ [][Next]_vars
Post == PrintVerdicts
=====================================================================================
