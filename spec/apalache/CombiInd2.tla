---------------------------- MODULE CombiInd2 ----------------------------
(* Unbounded-level inductive check of the structural clauses of C01 (Apalache).            *)
(* Update is CombiScheme.tla's Update for a request on an active vector (requests on       *)
(* other vectors leave the state unchanged there), level vectors are 2-tuples so that the   *)
(* SMT encoding stays small.  IndInit = ANY pair of index sets of at most N vectors with    *)
(* arbitrary integer levels (no level box) and any lmin >= 0 satisfying IndInv; the check   *)
(* `--init=IndInit --inv=IndInv --length=1` shows IndInv /\ Next => IndInv'.  The base case   *)
(* (the standard scheme satisfies IndInv) is an INVARIANT of the TLC runs of CombiScheme.tla *)
(* (P_Disjoint, P_NoActiveFwd, P_AboveMin, I_OldClosed).  IndInv implies P_DownClosed.       *)
EXTENDS Integers, FiniteSets, Apalache
N == 6
VARIABLES
    \* @type: Set(<<Int, Int>>);
    active,
    \* @type: Set(<<Int, Int>>);
    old,
    \* @type: Int;
    lmin
Dims == 1..2
\* @type: (<<Int, Int>>, Int) => <<Int, Int>>;
Fwd(v, d) == IF d = 1 THEN <<v[1] + 1, v[2]>> ELSE <<v[1], v[2] + 1>>
\* @type: (<<Int, Int>>, Int) => <<Int, Int>>;
Bwd(v, d) == IF d = 1 THEN <<v[1] - 1, v[2]>> ELSE <<v[1], v[2] - 1>>
\* @type: (<<Int, Int>>, Int) => Int;
At(v, d) == IF d = 1 THEN v[1] ELSE v[2]
Index == active \union old
Admissible(v, O) == {d \in Dims : \A k \in Dims : LET b == Bwd(Fwd(v, d), k) IN At(b, k) < lmin \/ b \in O}
Update(v) ==
    LET O2 == old \union {v}
        A  == Admissible(v, O2)
    IN  /\ old' = O2
        /\ active' = (active \ {v}) \union {Fwd(v, d) : d \in A}
        /\ UNCHANGED lmin
Next == \E v \in active : Update(v)
AboveMin == lmin >= 0 /\ \A v \in Index : \A d \in Dims : At(v, d) >= lmin
OldClosed == \A v \in old : \A d \in Dims : At(v, d) > lmin => Bwd(v, d) \in old
ActiveRests == \A v \in active : \A d \in Dims : At(v, d) > lmin => Bwd(v, d) \in old
Disjoint == active \intersect old = {}
NoActiveFwd == \A v \in active : \A d \in Dims : Fwd(v, d) \notin Index
DownClosed == \A v \in Index : \A d \in Dims : At(v, d) > lmin => Bwd(v, d) \in Index
IndInv == AboveMin /\ OldClosed /\ ActiveRests /\ Disjoint /\ NoActiveFwd
IndInit == /\ active = Gen(N) /\ old = Gen(N) /\ lmin = Gen(1) /\ IndInv
(* IndInv => DownClosed, checked as an invariant of the same one-step run *)
Implied == IndInv => DownClosed
=====================================================================
