----------------------------------- MODULE HatSystems -----------------------------------
(* Linear systems of the hat basis on (non-)uniform tensor grids without boundary points (C16, C20). *)
(* Static model: Init enumerates 1-D refinement-tree grids (positions on the lattice 0..LAT), their    *)
(* tensor products (D = 1, 2, 3), small data sets on the lattice (incl. samples on grid lines and on the   *)
(* domain boundary) and class labels; the exact Gram (mass) matrix, its lumped diagonal, the stiffness  *)
(* matrix and the right-hand side are derived from the definition of the basis and kept in variables.   *)
(* All numbers are rationals in lattice units (one lattice unit = 1/LAT of the unit interval).          *)
EXTENDS Rational, Sequences, FiniteSets
CONSTANTS LAT, GRIDS, DATASETS, MAXD, MAXPTS      \* MAXPTS: only tensor grids with at most that many inner points are enumerated
VARIABLES dim, grid, data, labels, mass, stiff, rhs, keys
vars == <<dim, grid, data, labels, mass, stiff, rhs, keys>>
Inner(g) == 2..(Len(g) - 1)
(* 1-D mass matrix entry of the hats at inner points i, j of grid g *)
M1(g, i, j) == IF i = j THEN Norm(g[i + 1] - g[i - 1], 3)
               ELSE IF j = i + 1 THEN Norm(g[j] - g[i], 6) ELSE IF i = j + 1 THEN Norm(g[i] - g[j], 6) ELSE Q(0)
(* 1-D stiffness entry (integral of the product of the derivatives) *)
S1(g, i, j) == IF i = j THEN RAdd(Norm(1, g[i] - g[i - 1]), Norm(1, g[i + 1] - g[i]))
               ELSE IF j = i + 1 THEN Norm(-1, g[j] - g[i]) ELSE IF i = j + 1 THEN Norm(-1, g[i] - g[j]) ELSE Q(0)
(* value of the hat at inner point i at position x *)
Hat(g, i, x) == IF x <= g[i - 1] \/ x >= g[i + 1] THEN Q(0)
                ELSE IF x <= g[i] THEN Norm(x - g[i - 1], g[i] - g[i - 1]) ELSE Norm(g[i + 1] - x, g[i + 1] - g[i])
RECURSIVE RProd(_, _)
RProd(f, n) == IF n = 0 THEN Q(1) ELSE RMul(f[n], RProd(f, n - 1))
RECURSIVE RSum(_, _)
RSum(f, n) == IF n = 0 THEN Q(0) ELSE RAdd(f[n], RSum(f, n - 1))
Points(G) == IF Len(G) = 1 THEN {<<i>> : i \in Inner(G[1])}
             ELSE IF Len(G) = 2 THEN {<<i, j>> : i \in Inner(G[1]), j \in Inner(G[2])}
             ELSE {<<i, j, k>> : i \in Inner(G[1]), j \in Inner(G[2]), k \in Inner(G[3])}
Mass(G) == [pq \in Points(G) \X Points(G) |-> RProd([d \in 1..Len(G) |-> M1(G[d], pq[1][d], pq[2][d])], Len(G))]
(* gradient Gram matrix: sum over the derivative dimension k of  stiffness in k  x  mass in the other dimensions *)
Stiff(G) == [pq \in Points(G) \X Points(G) |->
                RSum([k \in 1..Len(G) |-> RProd([d \in 1..Len(G) |-> IF d = k THEN S1(G[d], pq[1][d], pq[2][d]) ELSE M1(G[d], pq[1][d], pq[2][d])], Len(G))], Len(G))]
(* right-hand side: (signed) sample mean of every basis function *)
Rhs(G, X, Y) == [p \in Points(G) |->
                   RDiv(RSum([k \in 1..Len(X) |-> RMul(Q(Y[k]), RProd([d \in 1..Len(G) |-> Hat(G[d], p[d], X[k][d])], Len(G)))], Len(X)), Q(Len(X)))]
(* ---------------- reuse cache of matrix entries (DensityEstimation.old_R) ---------------- *)
(* The cache key of a pair of hats (get_domain_overlap_width): if the second point lies in the closed support of the  *)
(* first in every dimension: <<sorted overlap widths, sorted point distances>>, otherwise the all-zero key.            *)
MinI(a, b) == IF a < b THEN a ELSE b
MaxI(a, b) == IF a > b THEN a ELSE b
AbsI(v) == IF v < 0 THEN -v ELSE v
SortAsc(f) == LET n == Len(f)
                  RECURSIVE ins(_, _)
                  ins(sq, x) == IF sq = <<>> THEN <<x>> ELSE IF x <= Head(sq) THEN <<x>> \o sq ELSE <<Head(sq)>> \o ins(Tail(sq), x)
                  RECURSIVE go(_)
                  go(i) == IF i = 0 THEN <<>> ELSE ins(go(i - 1), f[i])
              IN  go(n)
Key(G, p, q) ==
    LET D == Len(G)
        lo(r, d) == G[d][r[d] - 1]
        hi(r, d) == G[d][r[d] + 1]
        adj == \A d \in 1..D : lo(p, d) <= G[d][q[d]] /\ G[d][q[d]] <= hi(p, d)
    IN  IF adj THEN <<SortAsc([d \in 1..D |-> AbsI(MinI(hi(p, d), hi(q, d)) - MaxI(lo(p, d), lo(q, d)))]),
                      SortAsc([d \in 1..D |-> AbsI(G[d][p[d]] - G[d][q[d]])])>>
        ELSE <<[d \in 1..D |-> 0], [d \in 1..D |-> 0]>>
KeyTable(G) == {<<Key(G, pq[1], pq[2]), Mass(G)[pq]>> : pq \in {x \in Points(G) \X Points(G) : TRUE}}

Init == /\ dim \in 1..MAXD
        /\ grid \in [1..dim -> GRIDS]
        /\ Cardinality(Points(grid)) <= MAXPTS
        /\ \E ds \in DATASETS : /\ data = [k \in 1..Len(ds.x) |-> SubSeq(ds.x[k], 1, dim)] /\ labels = ds.y
        /\ mass = Mass(grid) /\ stiff = Stiff(grid) /\ rhs = Rhs(grid, data, labels)
        /\ keys = KeyTable(grid)
Next == UNCHANGED vars
Spec == Init /\ [][Next]_vars
(* ---------------- design-level clauses ---------------- *)
Pts == Points(grid)
(* a cached entry may be reused for every pair of hats with the same key: the key must determine the value *)
C17_KeyDeterminesValue == \A a \in keys : \A b \in keys : a[1] = b[1] => a[2] = b[2]
C16_Symmetric == \A p \in Pts : \A q \in Pts : mass[<<p, q>>] = mass[<<q, p>>] /\ stiff[<<p, q>>] = stiff[<<q, p>>]
(* x^T M x > 0 for the sign vectors x in {-1, 0, 1}^n \ {0} (necessary for positive definiteness), small grids only *)
SignVectors == [Pts -> {-1, 0, 1}] \ {[p \in Pts |-> 0]}
QuadForm(mat, v) == LET ps == CHOOSE s \in [1..Cardinality(Pts) -> Pts] : \A a, b \in 1..Cardinality(Pts) : a # b => s[a] # s[b]
                        n == Cardinality(Pts)
                    IN  RSum([a \in 1..n |-> RSum([b \in 1..n |-> RMul(Q(v[ps[a]] * v[ps[b]]), mat[<<ps[a], ps[b]>>])], n)], n)
C16_MassPositive == Cardinality(Pts) <= 4 => \A v \in SignVectors : RLt(Q(0), QuadForm(mass, v))
C20_StiffSemiPositive == Cardinality(Pts) <= 4 => \A v \in SignVectors : RLe(Q(0), QuadForm(stiff, v))
=====================================================================================
