----------------------------------- MODULE LocalGrid -----------------------------------
(* Contract of the local (per sub-box) 1-D trapezoidal grid (C08).  Static model: Init enumerates *)
(* level, dyadic sub-interval [s, e] of the global interval [0, LAT] and the boundary flag; the    *)
(* expected points and (twice the) weights are kept in variables as oracle for the implementation. *)
(*   boundary on : 2^l + 1 equidistant points on [s, e], weights h/2, h, ..., h, h/2               *)
(*   boundary off: exactly the points lying on the global boundary (0 or LAT) are dropped, the      *)
(*                 remaining points and weights are unchanged                                       *)
EXTENDS Integers, Sequences, FiniteSets, TLC
CONSTANTS LAT, MAXLEVEL, MAXDEPTH
VARIABLES lvl, s, e, bnd, pts, w2
vars == <<lvl, s, e, bnd, pts, w2>>
RECURSIVE P2(_)
P2(n) == IF n = 0 THEN 1 ELSE 2 * P2(n - 1)
Intervals == UNION {{<<k * (LAT \div P2(d)), (k + 1) * (LAT \div P2(d))>> : k \in 0..(P2(d) - 1)} : d \in 0..MAXDEPTH}
Full(l, a, b) == [k \in 1..(P2(l) + 1) |-> a + (k - 1) * ((b - a) \div P2(l))]
FullW2(l, a, b) == [k \in 1..(P2(l) + 1) |-> IF k = 1 \/ k = P2(l) + 1 THEN (b - a) \div P2(l) ELSE 2 * ((b - a) \div P2(l))]
Keep(l, a, b, boundary) == {k \in 1..(P2(l) + 1) : boundary \/ (Full(l, a, b)[k] # 0 /\ Full(l, a, b)[k] # LAT)}
SelectIdx(f, K) == LET RECURSIVE go(_)
                       go(i) == IF i > Len(f) THEN <<>> ELSE (IF i \in K THEN <<f[i]>> ELSE <<>>) \o go(i + 1)
                   IN  go(1)
Init == /\ lvl \in 0..MAXLEVEL /\ bnd \in BOOLEAN
        /\ \E iv \in Intervals : s = iv[1] /\ e = iv[2]
        /\ (e - s) % P2(lvl) = 0
        /\ pts = SelectIdx(Full(lvl, s, e), Keep(lvl, s, e, bnd))
        /\ w2 = SelectIdx(FullW2(lvl, s, e), Keep(lvl, s, e, bnd))
Next == UNCHANGED vars
Spec == Init /\ [][Next]_vars
RECURSIVE SumSeq(_, _)
SumSeq(f, i) == IF i = 0 THEN 0 ELSE f[i] + SumSeq(f, i - 1)
Touches == (IF s = 0 THEN 1 ELSE 0) + (IF e = LAT THEN 1 ELSE 0)
C08_Inside      == \A i \in 1..Len(pts) : s <= pts[i] /\ pts[i] <= e
C08_Count       == Len(pts) = P2(lvl) + 1 - (IF bnd THEN 0 ELSE Touches) /\ Len(w2) = Len(pts)
C08_SumIsVolume == (bnd \/ Touches = 0) => SumSeq(w2, Len(w2)) = 2 * (e - s)
C08_LinearExact == (bnd \/ Touches = 0) => SumSeq([i \in 1..Len(pts) |-> w2[i] * pts[i]], Len(pts)) = e * e - s * s
=====================================================================================
