-------------------------------- MODULE PolyIntegrals --------------------------------
(* Exact integrals of the polynomial test functions over boxes with integer corners:       *)
(* transcription of the mathematical definition (not of the code), used as the oracle for   *)
(* getAnalyticSolutionIntegral.  Results are rationals <<num, den>> (not reduced).          *)
(*   "const"   f = c[1]                                                                    *)
(*   "linear"  f = prod_d c[d] x_d          (FunctionLinear)                                *)
(*   "multilin" f = sum_d c[d] x_d          (FunctionMultilinear)                           *)
(*   "poly"    f = prod_d c[d] x_d^deg      (FunctionPolynomial)                            *)
EXTENDS Integers, Sequences, FiniteSets, TLC
CONSTANTS MAXC, KINDS
VARIABLES kind, dim, lo, hi, coef, deg, expected
vars == <<kind, dim, lo, hi, coef, deg, expected>>
RECURSIVE Pow(_, _)
Pow(x, n) == IF n = 0 THEN 1 ELSE x * Pow(x, n - 1)
RECURSIVE ProdTo(_, _)
ProdTo(f, n) == IF n = 0 THEN 1 ELSE f[n] * ProdTo(f, n - 1)
RECURSIVE SumTo(_, _)
SumTo(f, n) == IF n = 0 THEN 0 ELSE f[n] + SumTo(f, n - 1)
Vol(a, b, D) == ProdTo([d \in 1..D |-> b[d] - a[d]], D)
(* integral of x^n over [a,b] = (b^(n+1) - a^(n+1)) / (n+1) *)
MonoNum(a, b, n) == Pow(b, n + 1) - Pow(a, n + 1)
Expected(k, D, a, b, c, n) ==
    CASE k = "const"    -> <<c[1] * Vol(a, b, D), 1>>
      [] k = "linear"   -> <<ProdTo([d \in 1..D |-> c[d] * MonoNum(a[d], b[d], 1)], D), Pow(2, D)>>
      [] k = "multilin" -> <<SumTo([d \in 1..D |-> c[d] * MonoNum(a[d], b[d], 1) * ProdTo([e \in 1..D |-> IF e = d THEN 1 ELSE b[e] - a[e]], D)], D), 2>>
      [] k = "poly"     -> <<ProdTo([d \in 1..D |-> c[d] * MonoNum(a[d], b[d], n)], D), Pow(n + 1, D)>>
Init == /\ kind \in KINDS /\ dim \in 1..3
        /\ lo \in [1..dim -> 0..MAXC] /\ hi \in [1..dim -> 0..MAXC]
        /\ \A d \in 1..dim : lo[d] < hi[d]
        /\ coef \in {[d \in 1..dim |-> d], [d \in 1..dim |-> 3 - 2 * d]}
        /\ deg \in (IF kind = "poly" THEN {2, 3} ELSE {1})
        /\ expected = Expected(kind, dim, lo, hi, coef, deg)
Next == UNCHANGED vars
Spec == Init /\ [][Next]_vars
(* sanity: a constant integrates to value * volume, the integral is additive over a split in dimension 1 *)
Additive == \A m \in (lo[1] + 1)..(hi[1] - 1) :
               LET e1 == Expected(kind, dim, lo, [hi EXCEPT ![1] = m], coef, deg)
                   e2 == Expected(kind, dim, [lo EXCEPT ![1] = m], hi, coef, deg)
               IN  e1[2] = expected[2] /\ e2[2] = expected[2] /\ e1[1] + e2[1] = expected[1]     \* common denominator: no cross-multiplication (32-bit integers)
=====================================================================================
