--------------------------------- MODULE ExtendSplit ---------------------------------
(* Implementation-shaped specification of the extend-split strategy (non-automatic decision, *)
(* 2^D splits).  One RefineStep = refine(): every selected leaf (in container order) is       *)
(* extended if its split counter reached the limit, otherwise split; an extend of an area     *)
(* with coarsening 0 raises lmax and the coarsening of all current areas.                     *)
EXTENDS ExtendSplitOps
CONSTANTS D, LMIN, LMAX, LAT, VERSION, NRBE, MAXSTEPS, MAXSEL
VARIABLES leaves, lmax, steps
vars == <<leaves, lmax, steps>>
cf == [D |-> D, lmin |-> LMIN, version |-> VERSION, nrbe |-> NRBE + 1]
Root == [s |-> [d \in 1..D |-> 0], e |-> [d \in 1..D |-> LAT], c |-> 0, n |-> 0, path |-> <<>>]
Init == leaves = SplitChildren(Root, D) /\ lmax = LMAX /\ steps = 0
Splittable(a) == \A d \in 1..D : a.e[d] - a.s[d] >= 2
Idx == 1..Len(leaves)
Selections == {{i} : i \in Idx} \cup (IF MAXSEL >= 2 THEN {{i, j} : i \in Idx, j \in Idx} ELSE {}) \cup {Idx}
RefineStep(Sel) ==
    /\ steps < MAXSTEPS /\ Sel # {} /\ \A i \in Sel : Splittable(leaves[i])
    /\ LET r == RefineLeaves(leaves, lmax, Sel, cf) IN leaves' = r.leaves /\ lmax' = r.lmax
    /\ steps' = steps + 1
Next == \E Sel \in (IF steps < MAXSTEPS THEN Selections ELSE {}) : RefineStep(Sel)
Spec == Init /\ [][Next]_vars

Paths == {leaves[i].path : i \in Idx}
(* probe points: the lattice of spacing LAT/8 (contains all faces and corners up to depth 3) *)
Probe == [1..D -> {k * (LAT \div 8) : k \in 0..8}]
C07_Tiling == Tiling(leaves, LAT, D)
C07_CoarseningNonNeg == \A i \in Idx : leaves[i].c >= 0
C07_UniqueOwner == \A p \in Probe : LET o == Owner(<<>>, Root.s, Root.e, p, Paths, D)
                                    IN  o \in Paths /\ \E i \in Idx : leaves[i].path = o /\ Contains(leaves[i], p)
C07_LocalCombination == \A i \in Idx : LocalCombinationValid(leaves[i], cf, lmax)
C07_PathsUnique == Cardinality(Paths) = Len(leaves)
=====================================================================================
