----------------------------------- MODULE Romberg -----------------------------------
(* Behaviour over the operators of RombergOps.tla: refinement (Add) and forced completion (Force) of a dyadic   *)
(* refinement tree; w / wb carry the sliced Romberg weights (GROUPING, SLICEV, default containers) and the       *)
(* balanced extrapolation weights of the current tree - one implementation test per state.                       *)
EXTENDS RombergOps
VARIABLES pts, w, wb
vars == <<pts, w, wb>>
(* ---------------------------------------------------------------- behaviour ------------------------- *)
Init == pts = {} /\ w = Weights({}) /\ wb = <<>>
Add(x) == /\ x \notin pts /\ (Lev(x) = 1 \/ ParentOf(x) \in pts)
          /\ pts' = pts \cup {x} /\ w' = Weights(pts') /\ wb' = BalWeights(pts')
Force == /\ pts' = ForceFull(pts) /\ pts' # pts /\ w' = Weights(pts') /\ wb' = BalWeights(pts')
Next == (\E x \in 1..(N - 1) : Add(x)) \/ Force
Spec == Init /\ [][Next]_vars
(* ---------------------------------------------------------------- properties ------------------------ *)
TypeOK == Closed(pts) /\ DOMAIN w = pts \cup {0, N}
C11_WeightSum == Moment(w, 0) = N * Q
C11_LinearExact == Moment(w, 1) = 0
C11_PolyExact == (POLY /\ (SLICEV = "ROMBERG" \/ GROUPING # "UNIT")) =>
                    \A m \in 1..M : pts = Complete(m) => \A k \in 0..(2 * m + 1) : Moment(w, k) = ExactMoment(k, Q)
C11_BalancedSum == wb # <<>> => Moment(wb, 0) = N * P(MaxLev(pts) - 1)
C11_BalancedLinear == wb # <<>> => Moment(wb, 1) = 0
C11_BalancedPoly == POLY => \A m \in 1..M : pts = Complete(m) => \A k \in 0..(2 * m - 1) : Moment(wb, k) = ExactMoment(k, P(m - 1))
C11_BalancedDefined == (pts # {} /\ IsFull(pts)) <=> wb # <<>>
(* forcing a full tree: only adds points, keeps the given ones, every inner point has zero or two children, the result is a valid tree *)
C11_ForceFull == LET F == ForceFull(pts) IN pts \subseteq F /\ IsFull(F) /\ Closed(F) /\ (IsFull(pts) => F = pts)
C11_ForceAction == [][(pts' = ForceFull(pts) /\ pts' # pts) => (pts \subseteq pts' /\ IsFull(pts'))]_vars
=====================================================================================
