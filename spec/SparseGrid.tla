---------------------------------- MODULE SparseGrid ----------------------------------
(* The standard (truncated) combination technique on nested trapezoidal grids (C02).         *)
(* Static model: Init enumerates the configurations (dimension, lmin, lmax, boundary flag);   *)
(* everything else is derived and kept in variables so that it appears in the dumped states  *)
(* and serves as the oracle for the implementation tests.  Lattice 0..LAT per dimension.     *)
EXTENDS CombiOps
CONSTANTS LAT, CONFIGS
VARIABLES cfg, scheme, pts, sparse, weight2
vars == <<cfg, scheme, pts, sparse, weight2>>
RECURSIVE P2(_)
P2(n) == IF n = 0 THEN 1 ELSE 2 * P2(n - 1)
H(l) == LAT \div P2(l)
(* 1-D points of level l *)
Pts1(l, bnd) == IF bnd THEN {k * H(l) : k \in 0..P2(l)} ELSE {k * H(l) : k \in 1..(P2(l) - 1)}
RECURSIVE TensorUp(_, _)
TensorUp(sets, d) == IF d = 0 THEN {<<>>} ELSE {Append(x, y) : x \in TensorUp(sets, d - 1), y \in sets[d]}
GridPts(lv, bnd) == TensorUp([d \in 1..Len(lv) |-> Pts1(lv[d], bnd)], Len(lv))
NumPoints(lv, bnd) == LET RECURSIVE pr(_)
                          pr(d) == IF d = 0 THEN 1 ELSE (IF bnd THEN P2(lv[d]) + 1 ELSE P2(lv[d]) - 1) * pr(d - 1)
                      IN  pr(Len(lv))
(* twice the 1-D trapezoidal weight (in lattice units) of point x on the level-l grid *)
W2(x, l, bnd) == IF bnd /\ (x = 0 \/ x = LAT) THEN H(l) ELSE 2 * H(l)
(* hierarchical level of a coordinate: 0 for the end points, else the first level whose grid contains it *)
HLevel(x) == IF x = 0 \/ x = LAT THEN 0 ELSE Min({l \in 1..16 : H(l) * P2(l) = LAT /\ x % H(l) = 0})
Index(c) == StdActive(c.D, c.lmin, c.lmax) \cup StdOld(c.D, c.lmin, c.lmax)
ProdTo(f, n) == LET RECURSIVE pr(_)
                    pr(d) == IF d = 0 THEN 1 ELSE f[d] * pr(d - 1)
                IN  pr(n)
CombinedW2(x, S, bnd) == FoldSet(LAMBDA p, acc : acc + p[2] * ProdTo([d \in 1..Len(x) |-> W2(x[d], p[1][d], bnd)], Len(x)), 0,
                                 {p \in S : x \in GridPts(p[1], bnd)})

Init == /\ cfg \in CONFIGS
        /\ scheme = ClosedForm(cfg.D, cfg.lmin, cfg.lmax)
        /\ pts = [p \in scheme |-> GridPts(p[1], cfg.bnd)]
        /\ sparse = UNION {GridPts(p[1], cfg.bnd) : p \in scheme}
        /\ weight2 = [x \in sparse |-> CombinedW2(x, scheme, cfg.bnd)]
Next == UNCHANGED vars
Spec == Init /\ [][Next]_vars

(* ---------------- property clauses at design level ---------------- *)
(* the union of the component grids is the sparse grid of the index set *)
C02_UnionIsSparseGrid ==
    sparse = {x \in TensorUp([d \in 1..cfg.D |-> Pts1(cfg.lmax, cfg.bnd)], cfg.D) :
                 \E v \in Index(cfg) : \A d \in 1..cfg.D : HLevel(x[d]) <= v[d]}
C02_CoeffSumOne == \A x \in sparse : FoldSet(LAMBDA p, acc : acc + p[2], 0, {p \in scheme : x \in pts[p]}) = 1
C02_NumPoints == \A p \in scheme : Cardinality(pts[p]) = NumPoints(p[1], cfg.bnd)
C02_SchemeIsInclExcl == scheme = CoefSet(Index(cfg), cfg.lmin)
(* nodal reproduction: sum_l c_l (I_l e_q)(x) = delta_xq for all sparse grid points x, q.         *)
(* (I_l e_q)(x) = [q in G_l] prod_d max(0, h_d - |x_d - q_d|) / h_d ; everything scaled by LAT^D    *)
AbsI(v) == IF v < 0 THEN -v ELSE v
HatNum(dx, l) == LET h == H(l) IN (IF AbsI(dx) >= h THEN 0 ELSE h - AbsI(dx)) * P2(l)
C02_NodalReproduction ==
    \A x \in sparse : \A q \in sparse :
        FoldSet(LAMBDA p, acc : acc + p[2] * ProdTo([d \in 1..cfg.D |-> HatNum(x[d] - q[d], p[1][d])], cfg.D), 0,
                {p \in scheme : q \in pts[p]})
          = (IF x = q THEN ProdTo([d \in 1..cfg.D |-> LAT], cfg.D) ELSE 0)
=====================================================================================
