---- MODULE MC_FunctionCache ----
EXTENDS FunctionCache
MCPoints == {1, 2, 3}
====
