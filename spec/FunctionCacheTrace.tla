------------------------------ MODULE FunctionCacheTrace ------------------------------
(* Trace specification for C12 (cache clause).  A trace is [cls, events: Seq(event)] with    *)
(*   [op |-> "single"|"batch"|"evalv"|"reset"|"deact", pts: Seq(point id), raised,            *)
(*    values_ok, shape_ok, size]                                                            *)
(* values_ok / shape_ok are measured by the harness against a direct scalar evaluation of a  *)
(* fresh instance; size = get_f_dict_size() after the call.                                 *)
EXTENDS Integers, Sequences, FiniteSets, TraceLib
VARIABLES tid, l, doCache, seen, fails
vars == <<tid, l, doCache, seen, fails>>
T == Traces[tid]
Ev(i) == T.events[i]
IsCall(e) == e.op \in {"single", "batch"}
NextSeen(e) == IF e.op = "reset" THEN {} ELSE IF IsCall(e) THEN seen \cup ToSet(e.pts) ELSE seen
NextCache(e) == IF e.op = "deact" THEN FALSE ELSE doCache
Clauses(e) ==
    [ P_NoException |-> ~e.raised,
      P_Transparent |-> e.raised \/ e.values_ok,
      P_Shape       |-> e.raised \/ e.shape_ok,
      P_Counter     |-> (NextCache(e) /\ ~e.raised) => e.size = Cardinality(NextSeen(e)) ]
Init == tid \in 1..NTraces /\ l = 0 /\ doCache = TRUE /\ seen = {} /\ fails = {} /\ Record(tid, Len(Traces[tid].events), 0, fails)
Next == /\ l < Len(T.events) /\ l' = l + 1 /\ tid' = tid
        /\ LET e == Ev(l + 1) IN
             /\ fails' = fails \cup FailedOf(Clauses(e), l + 1)
             /\ seen' = NextSeen(e) /\ doCache' = NextCache(e)
        /\ Record(tid, Len(T.events), l + 1, fails')
Spec == Init /\ [][Next]_vars
Post == PrintVerdicts
=====================================================================================
