--------------------------------- MODULE Classification ---------------------------------
(* Bookkeeping of DEMachineLearning.Classification after learning.                           *)
(* Abstract samples: [inside: in the learned range?, label: -1 (unlabelled) or class id,       *)
(*                    best: class with the largest estimated density at the sample]            *)
(*   classes : classes assigned to the stored testing data so far (get_calculated_classes)     *)
(*   labels  : true labels of the stored testing data                                         *)
(*   omitted : number of unlabelled samples set aside                                         *)
(*   lastRet : result of the last call (returned classes / summary)                            *)
(* Evaluate(S) = classifier(S) (no bookkeeping change), TestData(S) = test_data(S).            *)
EXTENDS Integers, Sequences, FiniteSets, SequencesExt, TLC
CONSTANTS SAMPLES, BATCHES, MAXSTEPS
VARIABLES classes, labels, omitted, lastRet, steps
vars == <<classes, labels, omitted, lastRet, steps>>
Filter(s, P(_)) == SelectSeq(s, P)
Kept(S) == Filter(S, LAMBDA x : x.inside)
Labelled(S) == Filter(S, LAMBDA x : x.label >= 0)
ClassOf(S) == [i \in 1..Len(S) |-> S[i].best]
Wrong(S) == Cardinality({i \in 1..Len(S) : S[i].best # S[i].label})
Init == classes = <<>> /\ labels = <<>> /\ omitted = 0 /\ lastRet = [k |-> "none"] /\ steps = 0
Evaluate(S) == /\ steps < MAXSTEPS /\ steps' = steps + 1
               /\ lastRet' = IF Kept(S) = <<>> THEN [k |-> "refused"] ELSE [k |-> "classes", cls |-> ClassOf(Kept(S))]
               /\ UNCHANGED <<classes, labels, omitted>>
TestData(S) == /\ steps < MAXSTEPS /\ steps' = steps + 1
               /\ IF Kept(S) = <<>>
                  THEN lastRet' = [k |-> "refused"] /\ UNCHANGED <<classes, labels, omitted>>
                  ELSE LET U == Labelled(Kept(S)) IN
                       /\ classes' = classes \o ClassOf(U)
                       /\ labels' = labels \o [i \in 1..Len(U) |-> U[i].label]
                       /\ omitted' = omitted + (Len(Kept(S)) - Len(U))
                       /\ lastRet' = [k |-> "summary", wrong |-> Wrong(U), total |-> Len(U)]
Next == \E S \in BATCHES : Evaluate(S) \/ TestData(S)
Spec == Init /\ [][Next]_vars
C19_EarlierClassesStable == [][IsPrefix(classes, classes') /\ IsPrefix(labels, labels')]_vars
C19_Aligned == Len(classes) = Len(labels)
C19_SummaryConsistent == lastRet.k = "summary" => lastRet.wrong <= lastRet.total /\ lastRet.total <= Len(classes)
=====================================================================================
