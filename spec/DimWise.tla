---------------------------------- MODULE DimWise ----------------------------------
(* Implementation-shaped specification of the dimension-wise spatially adaptive strategy. *)
(* One RefineStep = SpatiallyAdaptivBase.refine():  select -> split -> apply_remove/sort   *)
(* -> (rebalance) -> update_coarsening_values -> raise_lmax -> getCombiScheme.             *)
(* The selection (set of intervals whose benefit reaches margin * max benefit) is the      *)
(* input of the step; the benefit -> selection map is the clause C06_SelectionExact of the *)
(* trace specification.                                                                    *)
EXTENDS DimWiseOps
CONSTANTS D, LMIN, LMAX, LAT, VERSION, REBALANCE, SFN, SFD, BOUNDARY, MAXSTEPS, MAXSEL, SELDIMS
VARIABLES tree, lmax, active, old, scheme, pts, steps, aborted
vars == <<tree, lmax, active, old, scheme, pts, steps, aborted>>
cf == [D |-> D, lmin |-> LMIN, version |-> VERSION, boundary |-> BOUNDARY]
Index == active \cup old
(* derived state: the 1-D point set of every dimension and component level (kept as a variable so *)
(* that it is computed once per state and appears in the dumped graph)                             *)
PointSets(tr, lm) == [d \in 1..D |-> [l \in LMIN..lm[d] |-> PointSet(cf, tr, lm, d, l)]]

Init == /\ tree = [d \in 1..D |-> InitTree(LMAX, LAT)]
        /\ lmax = [d \in 1..D |-> LMAX]
        /\ active = StdActive(D, LMIN, LMAX)
        /\ old = StdOld(D, LMIN, LMAX)
        /\ scheme = CoefSet(active \cup old, LMIN)
        /\ pts = PointSets(tree, lmax)
        /\ steps = 0
        /\ aborted = FALSE

AllIntervals == UNION {{<<d, i>> : i \in 1..NIv(tree[d])} : d \in SELDIMS}     \* SELDIMS: dimensions in which intervals are selected
Splittable(iv) == tree[iv[1]][iv[2] + 1].p - tree[iv[1]][iv[2]].p >= 2

RefineStep(Sel, tie) ==
    /\ steps < MAXSTEPS /\ ~aborted
    /\ Sel # {} /\ \A iv \in Sel : Splittable(iv)
    /\ LET split == [d \in 1..D |-> SplitTree(tree[d], {iv[2] : iv \in {x \in Sel : x[1] = d}})]
           rebOK == ~REBALANCE \/ \A d \in 1..D : RebalanceOK(split[d], SFN, SFD, tie)
           tr2 == IF REBALANCE /\ rebOK THEN [d \in 1..D |-> RebalanceTree(split[d], SFN, SFD, tie)] ELSE split
           r == RaiseFrom(1, tr2, lmax, active, old, LMIN, D)
       IN  IF rebOK
           THEN /\ tree' = tr2
                /\ lmax' = r.lmax /\ active' = r.active /\ old' = r.old
                /\ scheme' = CoefSet(r.active \cup r.old, LMIN)
                /\ pts' = PointSets(tr2, r.lmax)
                /\ aborted' = FALSE
           ELSE /\ aborted' = TRUE       \* an assert of rebalance_interval fails: the library refuses the history
                /\ UNCHANGED <<tree, lmax, active, old, scheme, pts>>
    /\ steps' = steps + 1

Selections == {{x} : x \in AllIntervals}
              \cup (IF MAXSEL >= 2 THEN {{x, y} : x \in AllIntervals, y \in AllIntervals} ELSE {})
              \cup (IF MAXSEL >= 3 THEN {{x, y, z} : x \in AllIntervals, y \in AllIntervals, z \in AllIntervals} ELSE {})
              \cup {AllIntervals}
Next == \E Sel \in (IF steps < MAXSTEPS /\ ~aborted THEN Selections ELSE {}) : \E tie \in BOOLEAN \X BOOLEAN : RefineStep(Sel, tie)
Spec == Init /\ [][Next]_vars

P == pts

(* ------------------------- C06 ------------------------- *)
C06_Tiling        == \A d \in 1..D : Ascending(tree[d]) /\ Spans(tree[d], LAT)
C06_EndLevels     == \A d \in 1..D : EndLevelsZero(tree[d])
C06_BinaryTree    == \A d \in 1..D : BinaryTreeLevels(tree[d])
C06_LmaxCovers    == \A d \in 1..D : lmax[d] >= MaxLv(tree[d])
C06_NoAbort       == ~aborted
(* ------------------------- C01 (embedded scheme) ------------------------- *)
C01_Scheme == /\ DownClosed(Index, LMIN) /\ AboveMin(Index, LMIN) /\ Disjoint(active, old)
              /\ NoActiveFwd(active, Index) /\ SchemeInside(scheme, Index)
              /\ InclExcl(scheme, Index, D, LMIN)
(* ------------------------- C03 ------------------------- *)
C03_SchemeWithinLmax == \A p \in scheme : \A d \in 1..D : p[1][d] <= lmax[d]
C03_ContainsEnds  == \A d \in 1..D : \A l \in LMIN..lmax[d] : {0, LAT} \subseteq P[d][l]
C03_Monotone      == \A d \in 1..D : \A l \in LMIN..(lmax[d] - 1) : P[d][l] \subseteq P[d][l + 1]
C03_CoeffSumOne   == C03_SchemeWithinLmax => CoeffSumOneEverywhere(P, scheme, D, BOUNDARY, LAT)
(* ------------------------- C04 (discrete criterion) ------------------------- *)
C04_InitialSpaceExact ==
    C03_SchemeWithinLmax => \A g \in InitialHats(D, LMIN, LMAX, BOUNDARY) : HatExact(P, Index, g, D, LMIN, lmax, LAT)
=====================================================================================
