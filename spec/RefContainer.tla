----------------------------------- MODULE RefContainer -----------------------------------
(* Data-type specification of sparseSpACE/RefinementContainer.py, class RefinementContainer: the list of         *)
(* refinement objects every adaptive strategy keeps, with its running totals, its "new objects" marker, its        *)
(* pending-removal list and its search cursor.  One action per public method; object indices are 0-based as in    *)
(* the code (sequence position - 1).                                                                              *)
(*   objs     : Seq([id, val, ev, err, ben])   the refinement objects (id = creation number)                      *)
(*   value    : running sum maintained by set_value / apply_remove / reinit_new_objects                           *)
(*   evals    : running evaluation count maintained by set_evaluations / apply_remove / reinit_new_objects        *)
(*   pop      : popArray, object positions waiting for apply_remove (in the order of the refine calls)             *)
(*   startNew : startNewObjects; 0 is also the sentinel "nothing refined since the last reinit"                    *)
(*   search   : searchPosition of get_next_object_for_refinement                                                  *)
(*   ret      : what the last call returned (observation)                                                         *)
(* Two next-state relations: NextAPI lets every method be called in every state (bounded) - its state graph is      *)
(* replayed edge by edge on the real class; NextProtocol is the order in which SpatiallyAdaptivBase uses the       *)
(* container (evaluate the new objects, estimate, select with the cursor, refine, apply_remove, post-process) and  *)
(* carries the invariants that only hold under that protocol.                                                     *)
EXTENDS Integers, Sequences, FiniteSets, FiniteSetsExt, SequencesExt, TLC
CONSTANTS MAXOBJ, MAXSTEPS, VALS, EVS, ERRS, TOLS, PROTOCOL
VARIABLES objs, value, evals, pop, startNew, search, steps, ret, nextId, phase
vars == <<objs, value, evals, pop, startNew, search, steps, ret, nextId, phase>>

Obj(i) == [id |-> i, val |-> 0, ev |-> 0, err |-> 0, ben |-> 0]
N == Len(objs)
Pos == 0..(N - 1)                     \* 0-based positions
At(p) == objs[p + 1]
NoRet == [k |-> "none", a |-> 0, b |-> 0]
SumOver(f(_)) == FoldSeq(LAMBDA o, acc : acc + f(o), 0, objs)
MaxOver(f(_)) == FoldSeq(LAMBDA o, acc : IF f(o) > acc THEN f(o) ELSE acc, 0, objs)

Init == /\ objs = <<Obj(1), Obj(2)>> /\ nextId = 3
        /\ value = 0 /\ evals = 0 /\ pop = <<>> /\ startNew = 0 /\ search = 0
        /\ steps = 0 /\ ret = NoRet /\ phase = "evaluate"

Step == steps < MAXSTEPS /\ steps' = steps + 1

(* refine(object_id): remember where the new objects start (first refinement since the marker was cleared), create the  *)
(* two children, queue the object for removal                                                                          *)
Refine(p) ==
    /\ Step /\ p \in Pos /\ N + 2 <= MAXOBJ
    /\ ~\E k \in 1..Len(pop) : pop[k] = p            \* (an object is refined once before it is removed)
    /\ startNew' = IF startNew = 0 THEN N ELSE startNew
    /\ objs' = objs \o <<Obj(nextId), Obj(nextId + 1)>> /\ nextId' = nextId + 2
    /\ pop' = Append(pop, p)
    /\ ret' = [k |-> "refine", a |-> nextId, b |-> nextId + 1]
    /\ UNCHANGED <<value, evals, search>>

(* apply_remove(): positions in descending order; every removal takes the object's value and evaluations out of the    *)
(* totals and - while the marker is not 0 - moves the marker down by one                                               *)
SortDesc(s) == SortSeq(s, LAMBDA x, y : x > y)
RECURSIVE RemoveAll(_, _, _, _, _)
RemoveAll(os, v, e, sn, ps) ==
    IF ps = <<>> THEN [objs |-> os, value |-> v, evals |-> e, startNew |-> sn]
    ELSE LET p == Head(ps)  o == os[p + 1]
         IN  RemoveAll(SubSeq(os, 1, p) \o SubSeq(os, p + 2, Len(os)), v - o.val, e - o.ev, IF sn # 0 THEN sn - 1 ELSE sn, Tail(ps))
ApplyRemove ==
    /\ Step
    /\ LET r == RemoveAll(objs, value, evals, startNew, SortDesc(pop)) IN
         /\ objs' = r.objs /\ value' = r.value /\ evals' = r.evals /\ startNew' = r.startNew
    /\ pop' = <<>> /\ ret' = [k |-> "removed", a |-> Len(pop), b |-> 0]
    /\ UNCHANGED <<search, nextId>>

SetValue(p, v) == /\ Step /\ p \in Pos /\ value' = value + v /\ objs' = [objs EXCEPT ![p + 1].val = v]
                  /\ ret' = NoRet /\ UNCHANGED <<evals, pop, startNew, search, nextId>>
SetEvaluations(p, e) == /\ Step /\ p \in Pos /\ evals' = evals + e /\ objs' = [objs EXCEPT ![p + 1].ev = e]
                        /\ ret' = NoRet /\ UNCHANGED <<value, pop, startNew, search, nextId>>
(* calc_error(object_id, norm): the error estimator's answer is stored in the object *)
CalcError(p, x) == /\ Step /\ p \in Pos /\ objs' = [objs EXCEPT ![p + 1].err = x]
                   /\ ret' = NoRet /\ UNCHANGED <<value, evals, pop, startNew, search, nextId>>
(* set_benefit(object_id): error per evaluation, the error itself when nothing was evaluated (ERRS are multiples of every EVS) *)
SetBenefit(p) == /\ Step /\ p \in Pos
                 /\ objs' = [objs EXCEPT ![p + 1].ben = IF At(p).ev # 0 THEN At(p).err \div At(p).ev ELSE At(p).err]
                 /\ ret' = NoRet /\ UNCHANGED <<value, evals, pop, startNew, search, nextId>>
ClearNew == /\ Step /\ startNew' = N /\ ret' = NoRet /\ UNCHANGED <<objs, value, evals, pop, search, nextId>>
ReinitNew == /\ Step /\ startNew' = 0 /\ value' = 0 /\ evals' = 0 /\ ret' = NoRet /\ UNCHANGED <<objs, pop, search, nextId>>
PostProcess == /\ Step /\ search' = 0 /\ ret' = NoRet /\ UNCHANGED <<objs, value, evals, pop, startNew, nextId>>
(* get_next_object_for_refinement(tolerance): first object at or after the cursor, before the new objects, whose benefit *)
(* reaches the tolerance; the cursor moves behind it                                                                    *)
SearchEnd == IF startNew = 0 THEN N ELSE startNew
Candidates(tol) == {p \in Pos : p >= search /\ p < SearchEnd /\ At(p).ben >= tol}
NextForRefinement(tol) ==
    /\ Step
    /\ IF Candidates(tol) = {} THEN (ret' = [k |-> "next", a |-> -1, b |-> 0] /\ UNCHANGED search)
       ELSE LET p == Min(Candidates(tol)) IN (ret' = [k |-> "next", a |-> p, b |-> At(p).id] /\ search' = p + 1)
    /\ UNCHANGED <<objs, value, evals, pop, startNew, nextId>>

NextAPI == /\ UNCHANGED phase
           /\ \/ \E p \in Pos : Refine(p)
              \/ ApplyRemove
              \/ \E p \in Pos, v \in VALS : SetValue(p, v)
              \/ \E p \in Pos, e \in EVS : SetEvaluations(p, e)
              \/ \E p \in Pos, x \in ERRS : CalcError(p, x)
              \/ \E p \in Pos : SetBenefit(p)
              \/ ClearNew \/ ReinitNew \/ PostProcess
              \/ \E t \in TOLS : NextForRefinement(t)

(* ------------------------------ the driver's protocol (extend-split / cell style) ------------------------------ *)
(* evaluate: every NEW object gets its value (all objects while the marker is 0); estimate: error and benefit of        *)
(* objects; refine(): clear_new_objects, cursor search with a tolerance, each hit is refined; then apply_remove and     *)
(* refinement_postprocessing, and the next evaluation starts.                                                          *)
NewPos == {p \in Pos : p >= startNew}
Unevaluated == {p \in NewPos : At(p).val = 0}
ProtoNext ==
    \/ /\ phase = "evaluate" /\ Unevaluated # {}
       /\ LET p == Min(Unevaluated) IN \E v \in VALS \ {0} : SetValue(p, v)
       /\ UNCHANGED phase
    \/ /\ phase = "evaluate" /\ Unevaluated = {} /\ phase' = "estimate" /\ UNCHANGED <<objs, value, evals, pop, startNew, search, steps, ret, nextId>>
    \/ /\ phase = "estimate" /\ \E p \in Pos, x \in ERRS : (At(p).err = 0 /\ CalcError(p, x)) /\ UNCHANGED phase
    \/ /\ phase = "estimate" /\ \E p \in Pos : (At(p).ben # At(p).err /\ SetBenefit(p)) /\ UNCHANGED phase
    \/ /\ phase = "estimate" /\ ClearNew /\ phase' = "select"                     \* refine() starts with clear_new_objects()
    \/ /\ phase = "select" /\ \E t \in TOLS \ {0} : NextForRefinement(t) /\ phase' = IF ret'.a >= 0 THEN "refine" ELSE "finish"
    \/ /\ phase = "refine" /\ Refine(ret.a) /\ phase' = "select"
    \/ /\ phase = "finish" /\ ApplyRemove /\ phase' = "post"
    \/ /\ phase = "post" /\ PostProcess /\ phase' = "evaluate"

Next == IF PROTOCOL THEN ProtoNext ELSE NextAPI
Spec == Init /\ [][Next]_vars

(* ------------------------------ invariants of the data type (every call sequence) ------------------------------ *)
T_Types == /\ startNew \in 0..N /\ search \in 0..MAXOBJ /\ \A k \in 1..Len(pop) : pop[k] \in Pos
T_IdsDistinct == \A i, j \in 1..N : i # j => objs[i].id # objs[j].id
(* ------------------------------ invariants under the driver's protocol ------------------------------ *)
(* the running value is the sum of the values of the objects in the container (every object is evaluated once) *)
P_ValueIsSum == PROTOCOL => value = SumOver(LAMBDA o : o.val)
(* while a refinement round is running the objects from the marker on are exactly the children created in this round *)
P_NewAreChildren == (PROTOCOL /\ phase \in {"select", "refine", "finish"}) => \A p \in Pos : (p >= startNew) <=> (At(p).val = 0)
(* the cursor never passes the marker, and an object is selected at most once per round *)
P_CursorBeforeNew == PROTOCOL => (phase \in {"select", "refine", "finish"} => search <= startNew)
P_SelectedOnce == \A i, j \in 1..Len(pop) : i # j => pop[i] # pop[j]
(* after apply_remove the marker points at the first child of the round: the new objects are the last 2 * (number removed) objects - also *)
(* when every object was refined and the marker reaches its sentinel value 0                                                          *)
P_MarkerAfterRemove == (PROTOCOL /\ phase = "post") => startNew = N - 2 * ret.a
(* what the next evaluation will evaluate (get_new_objects) is never an object that already carries a value *)
P_EvaluateOnlyNew == (PROTOCOL /\ phase = "evaluate" /\ steps > 0) => \A p \in Pos : (p < startNew) => At(p).val # 0
=============================================================================================
