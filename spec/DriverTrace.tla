--------------------------------- MODULE DriverTrace ---------------------------------
(* Trace specification of the adaptive driver loop (C05, C13, C14).  A trace is            *)
(*   [cfg: [strategy, minE, maxE, single], events: Seq(event)]   with events               *)
(*   (single = the run was started with single_step=True: see DriverOps!EffLim; last0 = the *)
(*   single_step bookkeeping the recorded part starts with, -1 for a fresh call)            *)
(*   [k |-> "E", eok, np, nonneg, err_true, np_true, res_comb]   one evaluation             *)
(*   [k |-> "R"]                                                 one refine() call          *)
(*   [k |-> "Ret", lens, final_comb, reeval_same, reeval_flag_same, pw_same]  return        *)
(*   [k |-> "Resume", minE, maxE]                                continue_adaptive_refinement *)
(*   [k |-> "Final", same_structure, same_scheme, same_result, same_points, restored_same] *)
(* The control state (pc, hist, lim) is that of Driver.tla; every recorded event must be    *)
(* an enabled Driver action, and the numeric clauses measured by the harness must hold.     *)
EXTENDS DriverOps, TraceLib
VARIABLES tid, l, pc, hist, lim, lastCount, fails
vars == <<tid, l, pc, hist, lim, lastCount, fails>>
T == Traces[tid]
Ev(i) == T.events[i]
LastEv == hist[Len(hist)]
Lim == EffLim(lim, T.cfg.single, lastCount)

Clauses(e) ==
    CASE e.k = "E" ->
           [ C13_Order          |-> pc = "eval",
             C13_PointsMonotone |-> hist = <<>> \/ e.np >= LastEv[2],
             C13_ErrorsNonNeg   |-> e.nonneg,
             C13_ErrorTruthful  |-> e.err_true,
             C13_PointsTruthful |-> e.np_true,
             C05_ResultIsCombination |-> e.res_comb ]
      [] e.k = "R" ->
           [ C13_Order          |-> pc = "decide",
             C13_NoRefineAfterStop |-> hist # <<>> /\ ~MustStop(LastEv, Lim) ]
      [] e.k = "Ret" ->
           [ C13_Order          |-> pc = "decide",
             C13_StopsOnlyWhenDue |-> hist # <<>> /\ MustStop(LastEv, Lim),
             C13_ArraysAligned  |-> \A i \in 1..Len(e.lens) : e.lens[i] = Len(hist),
             C05_FinalIsCombination |-> e.final_comb,
             C05_ReevaluationSame |-> e.reeval_same,
             C05_ReevaluateFlagSame |-> e.reeval_flag_same,
             C05_PointsAndWeights |-> e.pw_same ]
      [] e.k = "Resume" ->
           [ C14_Order          |-> pc = "done" ]
      [] e.k = "Final" ->
           [ C14_SameStructure  |-> e.same_structure,
             C14_SameScheme     |-> e.same_scheme,
             C14_SameResult     |-> e.same_result,
             C14_SamePoints     |-> e.same_points,
             C14_RestoredSame   |-> e.restored_same ]

NextPc(e) == CASE e.k = "E" -> "decide" [] e.k = "R" -> "eval" [] e.k = "Ret" -> "done" [] e.k = "Resume" -> "eval" [] OTHER -> pc
NextHist(e) == IF e.k = "E" THEN Append(hist, <<e.eok, e.np>>) ELSE hist
NextLim(e) == IF e.k = "Resume" THEN [minE |-> e.minE, maxE |-> e.maxE] ELSE lim
NextLast(e) == IF e.k = "R" /\ T.cfg.single /\ hist # <<>> THEN LastEv[2] ELSE lastCount

Init == /\ tid \in 1..NTraces /\ l = 0
        /\ pc = "eval" /\ hist = <<>> /\ lastCount = Traces[tid].cfg.last0
        /\ lim = [minE |-> Traces[tid].cfg.minE, maxE |-> Traces[tid].cfg.maxE]
        /\ fails = {}
        /\ Record(tid, Len(Traces[tid].events), 0, fails)
Next == /\ l < Len(T.events)
        /\ l' = l + 1 /\ tid' = tid
        /\ LET e == Ev(l + 1) IN
             /\ fails' = fails \cup FailedOf(Clauses(e), l + 1)
             /\ pc' = NextPc(e) /\ hist' = NextHist(e) /\ lim' = NextLim(e) /\ lastCount' = NextLast(e)
        /\ Record(tid, Len(T.events), l + 1, fails')
Spec == Init /\ [][Next]_vars
Post == PrintVerdicts
=====================================================================================
