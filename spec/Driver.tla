----------------------------------- MODULE Driver -----------------------------------
(* The adaptive driver loop with its running-sum bookkeeping.                             *)
(*   pc       : "eval" -> "decide" -> ("refine" -> "eval" | "done");  "done" -> "eval" by    *)
(*              Resume (continue_adaptive_refinement with new limits)                      *)
(*   hist     : one <<errOK, np>> per evaluation (the returned history arrays)             *)
(*   areas    : id -> [live, isNew, contrib]   contrib = what the area currently adds to   *)
(*              the running result; the value of area id is the token 2^id                  *)
(*   integral : the running combined result                                                *)
(* STYLE = "WholeGrid": every evaluation recomputes everything (dimension-wise, standard); *)
(* STYLE = "NewAreasOnly": only areas marked new are evaluated and ADDED to the running     *)
(* result (extend-split, cell).  SUBTRACT_OLD models the repaired area_preprocessing that   *)
(* first removes the previous contribution of a re-evaluated area.                         *)
EXTENDS DriverOps, FiniteSetsExt
(* SINGLE_STEP = the single_step option (the maximum becomes "point count before the last refinement + 1"); RECALC = N > 0 models *)
(* recalculate_frequently with refinements_for_recalculate = N: when the number of refined areas divided by N exceeds the     *)
(* recalculation counter, refine() marks EVERY live area new again (reinit_new_objects) so that the next evaluation           *)
(* recomputes everything; 0 = option off.                                                                                   *)
CONSTANTS MAXK, MAXAREAS, STYLE, SUBTRACT_OLD, ALLOW_RESUME, LIMITS, SINGLE_STEP, RECALC
VARIABLES pc, hist, lim, areas, integral, nresume, lastCount, nref, counter
vars == <<pc, hist, lim, areas, integral, nresume, lastCount, nref, counter>>

RECURSIVE Pow2(_)
Pow2(n) == IF n = 0 THEN 1 ELSE 2 * Pow2(n - 1)
Val(id) == Pow2(id)
Live == {id \in DOMAIN areas : areas[id].live}
Ideal == FoldSet(LAMBDA id, acc : acc + Val(id), 0, Live)
LastNp == IF hist = <<>> THEN 1 ELSE hist[Len(hist)][2]

Lim == EffLim(lim, SINGLE_STEP, lastCount)
Init == /\ pc = "eval" /\ hist = <<>> /\ lim \in LIMITS /\ nresume = 0 /\ lastCount = -1 /\ nref = 0 /\ counter = 1
        /\ areas = [id \in 1..2 |-> [live |-> TRUE, isNew |-> TRUE, contrib |-> 0]]
        /\ integral = 0

Evaluate(eok, np) ==
    /\ pc = "eval" /\ Len(hist) < MAXK /\ np >= LastNp
    /\ IF STYLE = "WholeGrid"
       THEN /\ areas' = [id \in DOMAIN areas |-> IF areas[id].live THEN [areas[id] EXCEPT !.contrib = Val(id)] ELSE areas[id]]
            /\ integral' = Ideal
       ELSE LET New == {id \in Live : areas[id].isNew}
                old == FoldSet(LAMBDA id, acc : acc + areas[id].contrib, 0, New)
                add == FoldSet(LAMBDA id, acc : acc + Val(id), 0, New)
            IN  /\ areas' = [id \in DOMAIN areas |-> IF id \in New THEN [areas[id] EXCEPT !.contrib = Val(id)] ELSE areas[id]]
                /\ integral' = (IF SUBTRACT_OLD THEN integral - old ELSE integral) + add
    /\ hist' = Append(hist, <<eok, np>>)
    /\ pc' = "decide"
    /\ UNCHANGED <<lim, nresume, lastCount, nref, counter>>

DecideStop   == pc = "decide" /\ MustStop(hist[Len(hist)], Lim) /\ pc' = "done" /\ UNCHANGED <<hist, lim, areas, integral, nresume, lastCount, nref, counter>>
DecideRefine == /\ pc = "decide" /\ ~MustStop(hist[Len(hist)], Lim) /\ pc' = "refine"
                /\ lastCount' = IF SINGLE_STEP THEN hist[Len(hist)][2] ELSE lastCount
                /\ UNCHANGED <<hist, lim, areas, integral, nresume, nref, counter>>

(* refine(): clear the new markers, replace every selected area by two children (marked new), *)
(* subtract the removed areas' contributions from the running result                          *)
Refine(S) ==
    /\ pc = "refine" /\ S # {} /\ S \subseteq Live
    /\ Cardinality(DOMAIN areas) + 2 * Cardinality(S) <= MAXAREAS
    /\ LET n == Cardinality(DOMAIN areas)
           kids == (n + 1)..(n + 2 * Cardinality(S))
           nr == nref + Cardinality(S)
           recalc == RECALC > 0 /\ nr > counter * RECALC          \* refinements / refinements_for_recalculate > counter
       IN  /\ areas' = [id \in DOMAIN areas \cup kids |->
                          IF id \in kids THEN [live |-> TRUE, isNew |-> TRUE, contrib |-> 0]
                          ELSE IF id \in S THEN [live |-> FALSE, isNew |-> FALSE, contrib |-> 0]
                          ELSE [areas[id] EXCEPT !.isNew = recalc]]
           /\ integral' = integral - FoldSet(LAMBDA id, acc : acc + areas[id].contrib, 0, S)
           /\ nref' = nr /\ counter' = IF recalc THEN counter + 1 ELSE counter
    /\ pc' = "eval"
    /\ UNCHANGED <<hist, lim, nresume, lastCount>>

Resume(l2) == /\ ALLOW_RESUME /\ pc = "done" /\ nresume < 1 /\ l2 \in LIMITS
              /\ lim' = l2 /\ pc' = "eval" /\ nresume' = nresume + 1
              /\ UNCHANGED <<hist, areas, integral, lastCount, nref, counter>>

Next == \/ \E eok \in BOOLEAN, np \in 1..(MAXK + 2) : Evaluate(eok, np)
        \/ DecideStop \/ DecideRefine
        \/ \E S \in SUBSET Live : Cardinality(S) <= 2 /\ Refine(S)
        \/ \E l2 \in LIMITS : Resume(l2)
Spec == Init /\ [][Next]_vars

(* ---------------- C05 ---------------- *)
C05_ResultIsCombination == pc \in {"decide", "done", "refine"} => integral = Ideal
(* ---------------- C13 ---------------- *)
C13_StopOnlyWhenDue   == pc = "done" => MustStop(hist[Len(hist)], Lim)
C13_RefineOnlyWhenNotDue == pc = "refine" => ~MustStop(hist[Len(hist)], Lim)
(* single_step: a call refines at most until the first evaluation that shows two more points than before the last refinement; it never   *)
(* refines twice in a row when each refinement adds at least two points                                                                *)
I_SingleStepStops     == (SINGLE_STEP /\ pc = "decide" /\ lastCount >= 0 /\ hist[Len(hist)][2] > lastCount + 1) => MustStop(hist[Len(hist)], Lim)
C13_NoRefineAfterStop == [][pc = "done" => pc' \in {"done", "eval"} /\ (pc' = "eval" => lim' \in LIMITS /\ UNCHANGED areas)]_vars
C13_PointsMonotone    == \A i \in 1..(Len(hist) - 1) : hist[i][2] <= hist[i + 1][2]
(* ---------------- C14 ---------------- *)
C14_ResumeKeepsState  == [][(pc = "done" /\ pc' = "eval") => UNCHANGED <<areas, integral, hist>>]_vars
=====================================================================================
