--------------------------------- MODULE DimWiseOps ---------------------------------
(* Pure operators for the dimension-wise spatially adaptive strategy                      *)
(* (sparseSpACE/spatiallyAdaptiveSingleDimension2.py, RefinementObject/Container.py).     *)
(*                                                                                        *)
(* A 1-D refinement tree is a sequence of points  [p |-> lattice position, lv |-> level]; *)
(* interval i (1..Len-1) lies between point i and point i+1.  Positions are integers on a *)
(* lattice 0..LAT.  The coarsening level of an interval is derived:                       *)
(*      c(i) = lmax[d] - max(level of its two end points).                                *)
(* cf is a configuration record [D, lmin, version, boundary].                             *)
EXTENDS CombiOps

Last(s) == s[Len(s)]
NIv(T) == Len(T) - 1
Levels(T) == [i \in 1..Len(T) |-> T[i].lv]
Positions(T) == {T[i].p : i \in 1..Len(T)}
MaxLv(T) == Max({T[i].lv : i \in 1..Len(T)})
MaxOfFn(f) == Max({f[d] : d \in DOMAIN f})

(* ------------------------------- initial tree ------------------------------------------ *)
(* complete binary tree of depth lmax on the lattice 0..lat *)
RECURSIVE Pow2(_)
Pow2(n) == IF n = 0 THEN 1 ELSE 2 * Pow2(n - 1)
RECURSIVE LevelOfIdx(_, _)
(* level of point with index k (0..2^n) in the complete tree of depth n *)
LevelOfIdx(k, n) == IF k = 0 \/ k = Pow2(n) THEN 0 ELSE IF k % 2 = 1 THEN n ELSE LevelOfIdx(k \div 2, n - 1)
InitTree(lmax, lat) == [i \in 1..(Pow2(lmax) + 1) |-> [p |-> (i - 1) * (lat \div Pow2(lmax)), lv |-> LevelOfIdx(i - 1, lmax)]]

(* ------------------------------- splitting --------------------------------------------- *)
(* S: set of interval indices of this tree that are split at their midpoint *)
RECURSIVE SplitFrom(_, _, _)
SplitFrom(T, S, i) ==
    IF i = Len(T) THEN <<T[i]>>
    ELSE IF i \in S
         THEN <<T[i], [p |-> (T[i].p + T[i + 1].p) \div 2, lv |-> MaxI(T[i].lv, T[i + 1].lv) + 1]>> \o SplitFrom(T, S, i + 1)
         ELSE <<T[i]>> \o SplitFrom(T, S, i + 1)
SplitTree(T, S) == SplitFrom(T, S, 1)

(* ------------------------------- rebalancing ------------------------------------------- *)
(* Transcription of rebalance_interval on the level sequence L (one level per point).      *)
(* lo, hi: boundary points of the range (1-based point indices); inner points lo+1..hi-1.  *)
(* The code compares  |p/n2 - 1/2| > |q/n2 - 1/2| + sf  in floating point; sf = sfn/sfd.   *)
(* At exact rational ties IEEE rounding decides, so the specification takes `tie` there:    *)
(* tie = <<outcome for the right-child test, outcome for the left-child test>>.            *)
AbsI(x) == IF x < 0 THEN -x ELSE x
Further(p, q, n2, sfn, sfd, tie) ==
    LET lhs == AbsI(2 * p - n2) * sfd
        rhs == AbsI(2 * q - n2) * sfd + 2 * n2 * sfn
    IN  IF lhs = rhs THEN tie ELSE lhs > rhs

Shift(L, a, b, delta) == [j \in 1..Len(L) |-> IF j >= a /\ j <= b THEN L[j] + delta ELSE L[j]]

(* RebInfo: the scan of the code's first loop over the range *)
RebInfo(L, lo, hi, level) ==
    LET lvl  == {q \in (lo + 1)..hi : L[q] = level}
        lvl1 == {q \in (lo + 1)..hi : L[q] = level + 1}
        first == IF lvl = {} THEN hi + 1 ELSE Min(lvl)
        lefts == {q \in lvl1 : q < first}
        rights == {q \in lvl1 : q > first}
    IN  [ pl |-> IF lvl = {} THEN 0 ELSE Max(lvl),
          l  |-> IF lefts = {} THEN 0 ELSE Min(lefts),
          r  |-> IF rights = {} THEN 0 ELSE Min(rights),
          (* assertions of the code: a level point exists; at most one level+1 point on each side *)
          ok |-> lvl # {} /\ Cardinality(lefts) <= 1 /\ Cardinality(rights) <= 1 ]

RECURSIVE Reb(_, _, _, _, _, _, _)
Reb(L, lo, hi, level, sfn, sfd, tie) ==
    IF hi - lo <= 2 THEN L
    ELSE LET inf == RebInfo(L, lo, hi, level)
             n2 == hi - lo - 2
             rel(q) == q - lo - 1
         IN  IF ~inf.ok THEN L      \* the code raises AssertionError; RebOK reports it
             ELSE IF inf.r # 0 /\ Further(rel(inf.pl), rel(inf.r), n2, sfn, sfd, tie[1])
                  THEN \* rotate left: the right child becomes the root of the range
                       LET L1 == Shift(Shift(L, lo + 1, inf.pl, 1), inf.r, hi - 1, -1)
                       IN  Reb(Reb(L1, lo, inf.r, level + 1, sfn, sfd, tie), inf.r, hi, level + 1, sfn, sfd, tie)
                  ELSE IF inf.l # 0 /\ Further(rel(inf.pl), rel(inf.l), n2, sfn, sfd, tie[2])
                       THEN LET L1 == Shift(Shift(L, inf.pl, hi - 1, 1), lo + 1, inf.l, -1)
                            IN  Reb(Reb(L1, lo, inf.l, level + 1, sfn, sfd, tie), inf.l, hi, level + 1, sfn, sfd, tie)
                       ELSE Reb(Reb(L, lo, inf.pl, level + 1, sfn, sfd, tie), inf.pl, hi, level + 1, sfn, sfd, tie)

RECURSIVE RebOK(_, _, _, _, _, _, _)
(* TRUE iff no assertion of rebalance_interval fails *)
RebOK(L, lo, hi, level, sfn, sfd, tie) ==
    IF hi - lo <= 2 THEN TRUE
    ELSE LET inf == RebInfo(L, lo, hi, level)
             n2 == hi - lo - 2
             rel(q) == q - lo - 1
         IN  /\ inf.ok
             /\ IF inf.r # 0 /\ Further(rel(inf.pl), rel(inf.r), n2, sfn, sfd, tie[1])
                THEN LET L1 == Shift(Shift(L, lo + 1, inf.pl, 1), inf.r, hi - 1, -1)
                         L2 == Reb(L1, lo, inf.r, level + 1, sfn, sfd, tie)
                     IN  inf.pl < inf.r /\ RebOK(L1, lo, inf.r, level + 1, sfn, sfd, tie) /\ RebOK(L2, inf.r, hi, level + 1, sfn, sfd, tie)
                ELSE IF inf.l # 0 /\ Further(rel(inf.pl), rel(inf.l), n2, sfn, sfd, tie[2])
                     THEN LET L1 == Shift(Shift(L, inf.pl, hi - 1, 1), lo + 1, inf.l, -1)
                              L2 == Reb(L1, lo, inf.l, level + 1, sfn, sfd, tie)
                          IN  inf.l < inf.pl /\ RebOK(L1, lo, inf.l, level + 1, sfn, sfd, tie) /\ RebOK(L2, inf.l, hi, level + 1, sfn, sfd, tie)
                     ELSE LET L2 == Reb(L, lo, inf.pl, level + 1, sfn, sfd, tie)
                          IN  RebOK(L, lo, inf.pl, level + 1, sfn, sfd, tie) /\ RebOK(L2, inf.pl, hi, level + 1, sfn, sfd, tie)

WithLevels(T, L) == [i \in 1..Len(T) |-> [p |-> T[i].p, lv |-> L[i]]]
RebalanceTree(T, sfn, sfd, tie) == WithLevels(T, Reb(Levels(T), 1, Len(T), 1, sfn, sfd, tie))
RebalanceOK(T, sfn, sfd, tie) == RebOK(Levels(T), 1, Len(T), 1, sfn, sfd, tie)

(* ------------------------------- raising the maximum level ------------------------------ *)
RECURSIVE UpdAll(_, _, _, _)
UpdAll(S, A, O, lmin) ==
    IF S = {} THEN <<A, O>>
    ELSE LET v == CHOOSE x \in S : TRUE
             O2 == O \cup {v}
             A2 == (A \ {v}) \cup {Fwd(v, d) : d \in Admissible(v, O2, lmin)}
         IN  UpdAll(S \ {v}, A2, O2, lmin)
RECURSIVE Sweep(_, _, _, _, _)
(* raise_lmax: repeat updating every active index that lies below the new maximum levels *)
Sweep(lm, A, O, lmin, D) ==
    LET S == {v \in A : MaxOfFn(lm) + lmin * (D - 1) > SumV(v) /\ \A k \in 1..D : lm[k] > v[k]}
    IN  IF S = {} THEN <<A, O>>
        ELSE LET r == UpdAll(S, A, O, lmin) IN Sweep(lm, r[1], r[2], lmin, D)

RECURSIVE RaiseFrom(_, _, _, _, _, _, _)
(* dimensions are processed in order; the scheme seen by a later dimension is already updated *)
RaiseFrom(d, tr, lm, A, O, lmin, D) ==
    IF d > D THEN [lmax |-> lm, active |-> A, old |-> O]
    ELSE LET need == MaxLv(tr[d]) - lm[d]
         IN  IF need > 0
             THEN LET lm2 == [lm EXCEPT ![d] = @ + need]
                      r == Sweep(lm2, A, O, lmin, D)
                  IN  RaiseFrom(d + 1, tr, lm2, r[1], r[2], lmin, D)
             ELSE RaiseFrom(d + 1, tr, lm, A, O, lmin, D)

(* ------------------------------- point selection --------------------------------------- *)
Coarsening(T, lmaxd, i) == lmaxd - MaxI(T[i].lv, T[i + 1].lv)
MaxCoarsening(T, lmaxd) == Max({0} \cup {Coarsening(T, lmaxd, i) : i \in 1..NIv(T)})

RECURSIVE ScanLeft(_, _, _, _)
ScanLeft(L, j, ref, ml) == IF j < 2 THEN ml ELSE IF L[j] <= ref THEN MaxI(ml, L[j]) ELSE ScanLeft(L, j - 1, ref, MaxI(ml, L[j]))
RECURSIVE ScanRight(_, _, _, _)
ScanRight(L, j, ref, ml) == IF j > Len(L) THEN ml ELSE IF L[j] <= ref THEN MaxI(ml, L[j]) ELSE ScanRight(L, j + 1, ref, MaxI(ml, L[j]))
(* get_max_level for interval i (its end point is point i+1) *)
MaxLevelAt(T, i) ==
    LET L == Levels(T)
        ref == L[i + 1]
    IN  ScanRight(L, i + 2, ref, ScanLeft(L, i, ref, ref))

CountGeq(maxc, dims, x) == Cardinality({k \in dims : maxc[k] >= x})

Modify(s, l, ml, lmaxd, lmin) ==
    LET s2 == IF l - s >= ml /\ l < lmaxd THEN l - ml + 1 ELSE s IN MinI(s2, l - lmin)

RECURSIVE Loop68(_, _, _, _, _, _, _, _)
Loop68(mm, ps, sv, maxc, d, D, capv, fuel) ==
    LET cap(x) == IF capv < 0 THEN x ELSE MinI(capv, x)
        ps2 == IF mm > 0 THEN ps + cap(CountGeq(maxc, 1..D, sv - (mm - 1))) ELSE ps
        pt  == cap(CountGeq(maxc, 1..d, sv - mm))
        tot == ps2 + pt
        mm2 == IF tot <= sv THEN mm + 1 ELSE mm
    IN  IF tot >= sv \/ fuel = 0 THEN mm2 ELSE Loop68(mm2, ps2, sv, maxc, d, D, capv, fuel - 1)
RECURSIVE Loop7(_, _, _, _, _, _)
Loop7(mm, ps, sv, maxc, D, fuel) ==
    LET ps2 == ps + CountGeq(maxc, 1..D, sv - mm)
        mm2 == IF ps2 <= sv THEN mm + 1 ELSE mm
    IN  IF ps2 >= sv \/ fuel = 0 THEN mm2 ELSE Loop7(mm2, ps2, sv, maxc, D, fuel - 1)

(* get_subtraction_value for interval i of dimension d and component level l *)
SubValue(cf, T, lm, maxc, d, i, l) ==
    LET ml == MaxLevelAt(T, i)
        sv == lm[d] - ml
    IN  CASE cf.version = 6 -> Modify(Loop68(0, 0, sv, maxc, d, cf.D, -1, 64), l, ml, lm[d], cf.lmin)
          [] cf.version = 8 -> Modify(Loop68(0, 0, sv, maxc, d, cf.D, ml - 1, 64), l, ml, lm[d], cf.lmin)
          [] cf.version = 7 -> Modify(Loop7(0, 0, sv, maxc, cf.D, 64), l, ml, lm[d], cf.lmin)
          [] cf.version = 3 /\ ml > 2 -> IF sv % cf.D > d - 1 THEN sv \div cf.D + 1 ELSE sv \div cf.D
          [] cf.version \in {0, 1} -> 0          \* versions outside 2..8: no coarsening of the point sets at all
          [] OTHER -> sv

(* the 1-D point set (as a set of lattice positions) of dimension d for component level l *)
PointSet(cf, tr, lm, d, l) ==
    LET maxc == [k \in 1..cf.D |-> MaxCoarsening(tr[k], lm[k])]
        T == tr[d]
    IN  {T[1].p} \cup {T[i + 1].p : i \in {j \in 1..NIv(T) : T[j + 1].lv <= MaxI(l - SubValue(cf, T, lm, maxc, d, j, l), 1)}}

(* ------------------------------- C06 clauses (on a point sequence) ---------------------- *)
Ascending(T) == \A i \in 1..(Len(T) - 1) : T[i].p < T[i + 1].p
Spans(T, lat) == T[1].p = 0 /\ Last(T).p = lat
EndLevelsZero(T) == T[1].lv = 0 /\ Last(T).lv = 0
(* of the nearest lower-level points to the left and right of an inner point, the higher level is exactly lv-1 *)
BinaryTreeLevels(T) ==
    \A q \in 2..(Len(T) - 1) :
        LET v == T[q].lv
            ls == {j \in 1..(q - 1) : T[j].lv < v}
            rs == {j \in (q + 1)..Len(T) : T[j].lv < v}
        IN  /\ ls # {} /\ rs # {}
            /\ MaxI(T[Max(ls)].lv, T[Min(rs)].lv) = v - 1

(* ------------------------------- C03 clauses -------------------------------------------- *)
(* P: function  d -> (l -> set of positions), given for the levels lmin..lm[d]             *)
GridPoints(P, lv, D, boundary, lat) ==
    {x \in [1..D -> 0..lat] : \A d \in 1..D : x[d] \in P[d][lv[d]] /\ (boundary \/ (x[d] # 0 /\ x[d] # lat))}
RECURSIVE TensorUpTo(_, _)
TensorUpTo(sets, d) == IF d = 0 THEN {<<>>} ELSE {Append(x, y) : x \in TensorUpTo(sets, d - 1), y \in sets[d]}
TensorSet(sets, D) == TensorUpTo(sets, D)
GridDim(P, lv, d, boundary, lat) == IF boundary THEN P[d][lv[d]] ELSE P[d][lv[d]] \ {0, lat}
GridOf(P, lv, D, boundary, lat) == TensorSet([d \in 1..D |-> GridDim(P, lv, d, boundary, lat)], D)
InGridOf(x, P, lv, D, boundary, lat) == \A d \in 1..D : x[d] \in GridDim(P, lv, d, boundary, lat)
CoeffSumOneEverywhere(P, S, D, boundary, lat) ==
    LET U == UNION {GridOf(P, p[1], D, boundary, lat) : p \in S}
    IN  \A x \in U : FoldSet(LAMBDA p, acc : acc + p[2], 0, {p \in S : InGridOf(x, P, p[1], D, boundary, lat)}) = 1

(* ------------------------------- C04 discrete criterion --------------------------------- *)
(* a 1-D hat is <<level, index>>; level 0: boundary functions; kinks on the lattice           *)
Kinks(h, lat) ==
    IF h[1] = 0 THEN {0, lat}
    ELSE LET w == lat \div Pow2(h[1]) IN {(h[2] - 1) * w, h[2] * w, (h[2] + 1) * w}
(* first level (lmin..lm[d]) whose 1-D point set contains the kinks; 0 if there is none *)
FirstLevel(P, d, h, lmin, lmd, lat) ==
    LET ok == {l \in lmin..lmd : Kinks(h, lat) \subseteq P[d][l]} IN IF ok = {} THEN 0 ELSE Min(ok)
HatExact(P, I, g, D, lmin, lm, lat) ==
    LET m == [d \in 1..D |-> FirstLevel(P, d, g[d], lmin, lm[d], lat)]
    IN  (\A d \in 1..D : m[d] # 0) /\ m \in I
(* hats of the initial (lmin, lmax) space *)
Hats1D(l) == IF l = 0 THEN {<<0, 0>>, <<0, 1>>} ELSE {<<l, i>> : i \in {j \in 1..(Pow2(l) - 1) : j % 2 = 1}}
InitialHats(D, lmin, lmax, boundary) ==
    LET lo == IF boundary THEN 0 ELSE 1
        LVs == {lv \in [1..D -> lo..lmax] : SumV([d \in 1..D |-> MaxI(lv[d], lmin)]) <= lmax + (D - 1) * lmin}
    IN  UNION {TensorSet([d \in 1..D |-> Hats1D(lv[d])], D) : lv \in LVs}
=====================================================================================
