------------------------------ MODULE ClassificationTrace ------------------------------
(* Trace specification for C19.  A trace is [events: Seq(event)] recorded from one learned classifier:        *)
(*   [k |-> "learn", classes: Seq(Int), labels: Seq(Int), ranks: Seq(Seq(Int))]   state after learning        *)
(*   [k |-> "call" | "test", inside: Seq(BOOLEAN), labelsin: Seq(Int), ranks: Seq(Seq(Int)) per input sample  *)
(*        (rank of every class density, larger = larger density, equal ranks = numerical tie),                *)
(*        raised, returned: Seq(Int) classes in input order of the kept samples, nreturned,                    *)
(*        summary: <<wrong, total>> (test only), classes: Seq(Int) stored classes after the call]              *)
(*   [k |-> "evaluate", raised, summary: <<wrong, total>>, labels: Seq(Int) true labels of the stored test set] *)
(*   [k |-> "relearn", raised, classes, ranks]  after continue_dimension_wise_refinement: stored classes and the   *)
(*        density ranks of the stored test samples under the refined estimators                                  *)
(* inside is computed by the harness in exact rational arithmetic from the requested data and the learned range. *)
EXTENDS Integers, Sequences, FiniteSets, SequencesExt, TraceLib
VARIABLES tid, l, classes, labels, fails
vars == <<tid, l, classes, labels, fails>>
T == Traces[tid]
Ev(i) == T.events[i]
Idx(e, P(_)) == LET RECURSIVE go(_)
                    go(i) == IF i > Len(e.inside) THEN <<>> ELSE (IF P(i) THEN <<i>> ELSE <<>>) \o go(i + 1)
                IN  go(1)
KeptIdx(e) == Idx(e, LAMBDA i : e.inside[i])
TestedIdx(e) == Idx(e, LAMBDA i : e.inside[i] /\ e.labelsin[i] >= 0)
IsArgMax(r, c) == c + 1 \in 1..Len(r) /\ \A j \in 1..Len(r) : r[c + 1] >= r[j]
Clauses(e) ==
    CASE e.k = "call" ->
           LET K == KeptIdx(e) IN
           [ C19_OutOfRangeRemoved |-> IF K = <<>> THEN e.raised ELSE (~e.raised /\ e.nreturned = Len(K)),
             C19_ArgMax |-> e.raised \/ (Len(e.returned) = Len(K) /\ \A j \in 1..Len(K) : IsArgMax(e.ranks[K[j]], e.returned[j])),
             C19_EarlierClassesStable |-> e.classes = classes ]
      [] e.k = "test" ->
           LET K == KeptIdx(e)  U == TestedIdx(e) IN
           [ C19_OutOfRangeRemoved |-> IF K = <<>> THEN e.raised ELSE (U = <<>> \/ ~e.raised),   \* nothing labelled left to test: refusing is allowed
             C19_EarlierClassesStable |-> IsPrefix(classes, e.classes),
             C19_UnlabelledSetAside |-> e.raised \/ Len(e.classes) = Len(classes) + Len(U),
             C19_ArgMax |-> e.raised \/ Len(e.classes) # Len(classes) + Len(U) \/
                            \A j \in 1..Len(U) : IsArgMax(e.ranks[U[j]], e.classes[Len(classes) + j]),
             C19_SummaryConsistent |-> e.raised \/ Len(e.classes) # Len(classes) + Len(U) \/
                            (/\ e.summary[2] = Len(U)
                             /\ e.summary[1] = Cardinality({j \in 1..Len(U) : e.classes[Len(classes) + j] # e.labelsin[U[j]]})) ]
      [] e.k = "evaluate" ->
           [ C19_EvaluateConsistent |-> IF classes = <<>> THEN TRUE
                                        ELSE /\ ~e.raised
                                             /\ Len(e.labels) = Len(classes)
                                             /\ e.summary[2] = Len(classes)
                                             /\ e.summary[1] = Cardinality({j \in 1..Len(classes) : classes[j] # e.labels[j]}),
             \* the true labels the summary is taken against are the labels that were handed over with the tested samples (whatever the
             \* caller did with its own data set objects afterwards)
             C19_TrueLabelsKept |-> classes = <<>> \/ e.raised \/ Len(labels) # Len(classes) \/ e.labels = labels ]
      [] e.k = "relearn" ->      \* continue_dimension_wise_refinement: the stored test set is classified again with the refined densities
           [ C19_ArgMax |-> e.raised \/ (Len(e.classes) = Len(classes) /\ \A j \in 1..Len(e.classes) : IsArgMax(e.ranks[j], e.classes[j])),
             C19_NoException |-> ~e.raised ]
      [] OTHER -> [ C19_Learned |-> TRUE ]
Init == /\ tid \in 1..NTraces /\ l = 1
        /\ classes = Traces[tid].events[1].classes /\ labels = Traces[tid].events[1].labels
        /\ fails = FailedOf([ C19_ArgMax |-> \A j \in 1..Len(classes) : IsArgMax(Traces[tid].events[1].ranks[j], classes[j]),
                              C19_Aligned |-> Len(classes) = Len(labels) ], 1)
        /\ Record(tid, Len(Traces[tid].events), 1, fails)
Next == /\ l < Len(T.events) /\ l' = l + 1 /\ tid' = tid
        /\ LET e == Ev(l + 1) IN
             /\ fails' = fails \cup FailedOf(Clauses(e), l + 1)
             /\ classes' = IF e.k \in {"call", "test"} \/ (e.k = "relearn" /\ ~e.raised) THEN e.classes ELSE classes
             /\ labels' = IF e.k = "test" /\ ~e.raised /\ Len(e.classes) = Len(classes) + Len(TestedIdx(e))
                           THEN labels \o [j \in 1..Len(TestedIdx(e)) |-> e.labelsin[TestedIdx(e)[j]]] ELSE labels
        /\ Record(tid, Len(T.events), l + 1, fails')
Spec == Init /\ [][Next]_vars
Post == PrintVerdicts
=====================================================================================
