----------------------------------- MODULE CellScheme -----------------------------------
(* Refinement structure of the cell based strategy (sparseSpACE/RefinementObject.py, class RefinementObjectCell;    *)
(* sparseSpACE/spatiallyAdaptiveCell.py).  A cell is a dyadic box <<lv, ix>>: in dimension d it is                   *)
(* [ix[d] / 2^lv[d], (ix[d] + 1) / 2^lv[d]] on the unit domain.  `cells` is the dictionary of created cells of level  *)
(* >= LMIN, `active` the refinable ones.  Refine(c) deactivates c and creates, per dimension, those of its two        *)
(* children that do not exist yet and whose parents (one per dimension above LMIN) all exist and are inactive.      *)
(* This module is not tied to one of the listed properties; it extends the specification to the third adaptive       *)
(* strategy and is bound to the code by edge replay (drift reports only).                                           *)
EXTENDS Integers, FiniteSets, Sequences
CONSTANTS D, LMIN, MAXL, MAXSTEPS
VARIABLES cells, active, steps
vars == <<cells, active, steps>>
Dims == 1..D
Cell(lv, ix) == <<lv, ix>>
InitCells == {Cell([d \in Dims |-> LMIN], ix) : ix \in [Dims -> 0..(2^LMIN - 1)]}
ParentIn(c, d) == Cell([c[1] EXCEPT ![d] = @ - 1], [c[2] EXCEPT ![d] = @ \div 2])
Parents(c) == {ParentIn(c, d) : d \in {e \in Dims : c[1][e] > LMIN}}
ChildrenIn(c, d) == {Cell([c[1] EXCEPT ![d] = @ + 1], [c[2] EXCEPT ![d] = 2 * @ + k]) : k \in {0, 1}}
Creatable(ch, cs, act) == ch \notin cs /\ \A p \in Parents(ch) : p \in cs /\ p \notin act
Init == cells = InitCells /\ active = InitCells /\ steps = 0
Refine(c) ==
    /\ c \in active /\ steps < MAXSTEPS /\ \A d \in Dims : c[1][d] < MAXL
    /\ LET act1 == active \ {c}
           new == UNION {{ch \in ChildrenIn(c, d) : Creatable(ch, cells, act1)} : d \in Dims}
       IN  cells' = cells \cup new /\ active' = act1 \cup new
    /\ steps' = steps + 1
Next == \E c \in cells : Refine(c)
Spec == Init /\ [][Next]_vars
(* ---------------------------------------------------------------- invariants ------------------------ *)
TypeOK == active \subseteq cells
ParentsInactive == \A c \in cells : \A p \in Parents(c) : p \in cells /\ p \notin active        \* downward closed, refined from inactive parents only
ActiveAreLeaves == \A c \in active : \A d \in Dims : ChildrenIn(c, d) \cap cells = {}
InitialLevelKept == InitCells \subseteq cells
(* the active cells never overlap in their interiors with another active cell of the same level vector (they are distinct boxes of one grid) *)
Monotone == [][cells \subseteq cells' /\ (cells \ active) \subseteq (cells' \ active')]_vars
=====================================================================================
