--------------------------------- MODULE RombergTrace ---------------------------------
(* Trace specification for C11.  One trace = one refinement tree (inner points on the lattice 0..N of           *)
(* Romberg.tla) with the outputs the library produced for it, for the GROUPING / SLICEV the run is configured     *)
(* with.  Weights are recorded in units 1/Q per lattice unit (integers, see Romberg.tla):                        *)
(*   [k |-> "force",   out: Seq(Int), levels: Seq(Int)]    GridBinaryTree.init_tree; force_full_tree_invariant;   *)
(*                                                         get_grid / get_grid_levels (inner points)              *)
(*   [k |-> "weights", forced: BOOLEAN, simpson: BOOLEAN, grid: Seq(Int) inner points the weights belong to,      *)
(*                     wq: Seq(Int) weights of 0, inner points..., N]                                              *)
(*   [k |-> "balanced", wq: Seq(Int)]                       BalancedExtrapolationGrid, units 1/P(maxlevel-1)        *)
(* Clauses named C11_* are clauses of the property; I_* compare with the weights / tree the specification         *)
(* computes (implementation shape).                                                                              *)
EXTENDS RombergOps, TraceLib
VARIABLES tid, l, fails
vars == <<tid, l, fails>>
T == Traces[tid]
Pts(t) == ToSet(t.pts)
AsFun(S, wq) == LET g == Grid(S) IN [x \in S \cup {0, N} |-> wq[CHOOSE i \in 1..Len(g) : g[i] = x]]
AllUnit(S) == LET cs == Containers(Grid(S), 1) IN \A c \in 1..Len(cs) : cs[c][2] = 1
Clauses(t, e) ==
    CASE e.k = "force" ->
           LET inp == Pts(t)  out == ToSet(e.out) IN
           [ C11_ForceKeepsPoints |-> inp \subseteq out,
             C11_ForceOnlyTreePoints |-> out \subseteq 1..(N - 1) /\ Closed(out),
             C11_ForceFullTree |-> out \subseteq 1..(N - 1) => IsFull(out),
             C11_ForceLevels |-> out \subseteq 1..(N - 1) => (Len(e.levels) = Len(e.out) /\ \A i \in 1..Len(e.out) : e.levels[i] = Lev(e.out[i])),
             I_ForceEqualsSpec |-> out = ForceFull(inp) ]
      [] e.k = "weights" ->
           LET S == ToSet(e.grid) IN
           IF ~(S \subseteq 1..(N - 1) /\ Closed(S) /\ Len(e.wq) = Cardinality(S) + 2)
           THEN [ C11_WeightPerPoint |-> FALSE ]
           ELSE LET f == AsFun(S, e.wq) IN
           [ C11_WeightSum |-> Moment(f, 0) = N * Q,
             C11_LinearExact |-> Moment(f, 1) = 0,
             C11_PolyExact |-> (POLY /\ ~e.simpson /\ SLICEV = "ROMBERG") =>
                                 \A m \in 1..M : S = Complete(m) => \A k \in 0..(2 * m + 1) : Moment(f, k) = ExactMoment(k, Q),
             C11_ForcedGrid |-> e.forced => (Pts(t) \subseteq S /\ IsFull(S)),
             I_GridEqualsSpec |-> S = IF e.forced THEN ForceFull(Pts(t)) ELSE Pts(t),
             I_GroupedPolyExact |-> (POLY /\ ~e.simpson /\ GROUPING # "UNIT") =>
                                 \A m \in 1..M : S = Complete(m) => \A k \in 0..(2 * m + 1) : Moment(f, k) = ExactMoment(k, Q),
             I_WeightsEqualSpec |-> (~e.simpson \/ AllUnit(S)) => f = Weights(S) ]
      [] e.k = "balanced" ->
           LET S == Pts(t) IN
           IF Len(e.wq) # Cardinality(S) + 2 THEN [ C11_WeightPerPoint |-> FALSE ]
           ELSE LET f == AsFun(S, e.wq)  m == MaxLev(S) IN
           [ C11_BalancedSum |-> Moment(f, 0) = N * P(m - 1),
             C11_BalancedLinear |-> Moment(f, 1) = 0,
             C11_BalancedPoly |-> (POLY /\ S = Complete(m)) => \A k \in 0..(2 * m - 1) : Moment(f, k) = ExactMoment(k, P(m - 1)),
             I_BalancedEqualsSpec |-> f = BalWeights(S) ]
      [] OTHER -> [ C11_Event |-> FALSE ]
Init == /\ tid \in 1..NTraces /\ l = 0 /\ fails = {}
         /\ Record(tid, Len(Traces[tid].events), 0, {})
Next == /\ l < Len(T.events) /\ l' = l + 1 /\ tid' = tid
         /\ fails' = fails \cup FailedOf(Clauses(T, T.events[l + 1]), l + 1)
         /\ Record(tid, Len(T.events), l + 1, fails')
Spec == Init /\ [][Next]_vars
Post == PrintVerdicts
=====================================================================================
