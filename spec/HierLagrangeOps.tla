--------------------------------- MODULE HierLagrangeOps -------------------------------
(* Exact model of the hierarchical Lagrange basis of GlobalLagrangeGrid (boundary points included) on a dyadic   *)
(* refinement tree: knot selection along the ancestor chain, window of P+1 knots around the point, restricted     *)
(* support, surpluses, interpolation - in rational arithmetic on the integer lattice 0..N (N = 2^M; the trees       *)
(* live on the even lattice points so that every cell midpoint is a lattice point too).                            *)
(* The model answers, for every tree and order P, which monomials the interpolant reproduces EVERYWHERE; it is       *)
(* the reference for the knot selection of adaptive grids (sparseSpACE/Grid.py, GlobalLagrangeGrid).               *)
EXTENDS Rational, Sequences, FiniteSets
CONSTANTS M,      \* lattice depth; trees have depth <= M - 1
          P       \* order of the Lagrange polynomials
N == 2^M
Pw(a, k) == IF k = 0 THEN 1 ELSE a^k
TZ(x) == CHOOSE t \in 0..M : x % (2^t) = 0 /\ (t = M \/ x % (2^(t + 1)) # 0)
Lev(x) == IF x = 0 \/ x = N THEN 0 ELSE M - TZ(x)
H(l) == N \div (2^l)
ParentOf(x) == LET l == Lev(x) IN IF Lev(x - H(l)) = l - 1 THEN x - H(l) ELSE x + H(l)
Children(x) == IF Lev(x) >= M - 1 THEN {} ELSE {x - H(Lev(x) + 1), x + H(Lev(x) + 1)}
RECURSIVE SortedSeq(_)
SortedSeq(S) == IF S = {} THEN <<>> ELSE LET mn == CHOOSE x \in S : \A y \in S : x <= y IN <<mn>> \o SortedSeq(S \ {mn})
(* ------------------------------------------------------------- knot selection ------------------------- *)
RECURSIVE Chain(_)
Chain(x) == IF Lev(x) = 0 THEN {0, N} ELSE IF Lev(x) = 1 THEN {0, x, N} ELSE Chain(ParentOf(x)) \cup {x}
Knots(x) == LET all == SortedSeq(Chain(x))
                n == Len(all)
                idx == CHOOSE i \in 1..n : all[i] = x
                left == idx - 1
                right == n - idx
            IN  IF n <= P + 1 THEN all
                ELSE IF left < (P + 1) \div 2 THEN SubSeq(all, 1, P + 1)
                ELSE IF right < P \div 2 THEN SubSeq(all, n - P, n)
                ELSE SubSeq(all, idx - (P + 1) \div 2, idx + P \div 2)
(* ------------------------------------------------------------- basis ---------------------------------- *)
RECURSIVE LagProd(_, _, _, _)
LagProd(kn, i, z, j) == IF j > Len(kn) THEN Q(1)
                        ELSE IF j = i THEN LagProd(kn, i, z, j + 1)
                        ELSE RMul(Norm(z - kn[j], kn[i] - kn[j]), LagProd(kn, i, z, j + 1))
Phi(x, z) == LET kn == Knots(x)
                 i == CHOOSE j \in 1..Len(kn) : kn[j] = x
                 lo == kn[IF i = 1 THEN 1 ELSE i - 1]
                 hi == kn[IF i = Len(kn) THEN i ELSE i + 1]
             IN  IF z < lo \/ z > hi THEN Q(0) ELSE LagProd(kn, i, z, 1)
(* ------------------------------------------------------------- hierarchisation ------------------------ *)
Nodes(S) == S \cup {0, N}
RECURSIVE SumR(_, _)
SumR(F(_), S) == IF S = {} THEN Q(0) ELSE LET x == CHOOSE y \in S : TRUE IN RAdd(F(x), SumR(F, S \ {x}))
RECURSIVE Surplus(_, _, _)
Surplus(S, k, x) == RSub(Q(Pw(x, k)), SumR(LAMBDA y : RMul(Surplus(S, k, y), Phi(y, x)), {y \in Nodes(S) : Lev(y) < Lev(x)}))
Surpluses(S) == [k \in 0..P |-> [x \in Nodes(S) |-> Surplus(S, k, x)]]
Interp(S, s, z) == SumR(LAMBDA y : RMul(s[y], Phi(y, z)), Nodes(S))
Reproduced(S, s) == [k \in 0..P |-> \A z \in 0..N : Interp(S, s[k], z) = Q(Pw(z, k))]
Complete(m) == {x \in 1..(N - 1) : Lev(x) <= m}
=====================================================================================
