-------------------------------- MODULE CombiScheme --------------------------------
(* Adaptive combination scheme (sparseSpACE/combiScheme.py).                              *)
(*   active, old : the two index sets;  scheme : what getCombiScheme returns;             *)
(*   ret : what the last update request returned (observation only).                      *)
(* One action per public call:  Update(v) = update_adaptive_combi(v) followed by            *)
(* getCombiScheme().  Update is enabled for EVERY level vector of the box (refinable or    *)
(* not, in the set or not, also below the minimum level).                                  *)
EXTENDS CombiOps
CONSTANTS D, LMIN, LMAX, CAP
VARIABLES active, old, scheme, ret
vars == <<active, old, scheme, ret>>

Index == active \cup old
LowReq == IF LMIN > 0 THEN LMIN - 1 ELSE 0
Requests == [1..D -> LowReq..CAP]

Init == /\ active = StdActive(D, LMIN, LMAX)
        /\ old = StdOld(D, LMIN, LMAX)
        /\ scheme = CoefSet(active \cup old, LMIN)
        /\ ret = [none |-> TRUE, dims |-> {}]

Update(v) ==
    IF v \notin active
    THEN /\ UNCHANGED <<active, old, scheme>>
         /\ ret' = [none |-> TRUE, dims |-> {}]
    ELSE LET O2 == old \cup {v}
             A  == Admissible(v, O2, LMIN)
         IN  /\ old' = O2
             /\ active' = (active \ {v}) \cup {Fwd(v, d) : d \in A}
             /\ scheme' = CoefSet(active' \cup old', LMIN)
             /\ ret' = [none |-> FALSE, dims |-> A]

Next == \E v \in Requests : Update(v)
Spec == Init /\ [][Next]_vars

InBox == \A v \in Index : \A d \in 1..D : v[d] <= CAP

(* ---------------- property clauses ---------------- *)
P_DownClosed       == DownClosed(Index, LMIN)
P_AboveMin         == AboveMin(Index, LMIN)
P_Disjoint         == Disjoint(active, old)
P_NoActiveFwd      == NoActiveFwd(active, Index)
P_SchemeInside     == SchemeInside(scheme, Index)
P_SchemeFunctional == SchemeFunctional(scheme) /\ SchemeNonZero(scheme)
P_InclExcl         == InclExcl(scheme, Index, D, LMIN)
P_SumOne           == SumOne(scheme)
P_InitClosedForm   == (active = StdActive(D, LMIN, LMAX) /\ old = StdOld(D, LMIN, LMAX))
                         => scheme = ClosedForm(D, LMIN, LMAX)
P_Grows            == [][old \subseteq old' /\ Index \subseteq Index']_vars
(* old is downward closed by itself and every active index rests on old ones: the          *)
(* inductive strengthening used by the Apalache run                                         *)
I_OldClosed        == DownClosed(old, LMIN) /\
                      \A v \in active : \A d \in 1..D : v[d] > LMIN => Bwd(v, d) \in old
=====================================================================================
