"""C07 - extend-split areas tile the domain and each carries a valid local combination.

spec/ExtendSplit.tla (I-spec: split/extend counters, lmax raising, coarsen_grid versions 0-2, point ownership) is
model-checked by TLC; every edge is replayed on the real strategy with scripted benefits; edge replays and random
histories (versions, number of refinements before extend, automatic decision, single-dimension splitting) are validated
by TLC against spec/ExtendSplitTrace.tla."""
import json
import random

from harness.engine import impl, tlc
from harness.engine.report import Report
from harness.drivers import extendsplit_pipeline as P

PROP = 'C07'
INVS = ['C07_Tiling', 'C07_CoarseningNonNeg', 'C07_UniqueOwner', 'C07_LocalCombination', 'C07_PathsUnique']


def mc_configs(tier):
    L = []

    def add(**kw):
        c = dict(D=2, lmin=1, lmax=2, version=0, nrbe=1, steps=3, maxsel=1)
        c.update(kw)
        c['name'] = 'D=%d (%d,%d) v%d nrbe=%d steps=%d sel<=%d' % (c['D'], c['lmin'], c['lmax'], c['version'], c['nrbe'], c['steps'], c['maxsel'])
        L.append(c)
    add(version=0)
    add(version=1, steps=2, maxsel=2)
    add(version=2, nrbe=2)
    add(version=3, steps=2, maxsel=2)
    if tier == 'thorough':
        add(version=3, steps=4)
        add(version=3, lmin=2, lmax=3, steps=3)
        add(version=0, steps=3, maxsel=2)
        add(version=1, steps=4)
        add(version=2, steps=4)
        add(version=0, lmax=3, steps=3)
        add(version=0, nrbe=2, steps=4)
        add(version=0, D=3, steps=2)
        add(version=1, D=3, steps=2)
        add(version=0, lmin=2, lmax=3, steps=3)
    return L


def random_configs(tier, rng):
    out = []
    for i in range(30 if tier == 'quick' else 300):
        D = rng.choice([2, 2, 2, 3])
        lmin, lmax = rng.choice([(1, 2), (1, 2), (1, 3), (2, 3)])
        c = dict(D=D, lmin=lmin, lmax=lmax, version=rng.choice([0, 0, 1, 2, 3]), nrbe=rng.choice([1, 1, 2]), auto=rng.random() < 0.2,
                 single=rng.random() < 0.15, maxleaves=40 if D == 2 else 48)
        if rng.random() < 0.3:
            c['a'] = [-3.0 + d for d in range(D)]
            c['b'] = [6.0 + 2 * d for d in range(D)]
        c['name'] = 'random-config %d' % i
        out.append((c, rng.randint(3, 6) if D == 2 else rng.randint(2, 3)))
    # corner-chasing histories: deep chains of split/extend on one corner for every version
    for version in (0, 1, 2, 3):
        for (lmin, lmax) in ([(1, 2), (1, 3)] if tier == 'quick' else [(1, 2), (1, 3), (1, 4)]):
            for nrbe in ([1] if tier == 'quick' else [1, 2]):
                out.append((dict(D=2, lmin=lmin, lmax=lmax, version=version, nrbe=nrbe, chain=rng.randint(0, 3), maxleaves=60,
                                 name='corner chain v%d (%d,%d) nrbe=%d' % (version, lmin, lmax, nrbe)), 7 if tier == 'quick' else 9))
    # sweeps: one leaf per step, leaves visited in turn (rounds that only extend areas with a positive coarsening value)
    for version, nrbe, stride in ([(0, 1, 1), (0, 2, 1), (1, 1, 1), (2, 1, 3)] if tier == 'quick' else [(v, n, st) for v in (0, 1, 2) for n in (1, 2) for st in (1, 3)]):
        out.append((dict(D=2, lmin=1, lmax=2, version=version, nrbe=nrbe, sweep=stride, maxleaves=40, continue_via='resume',
                         name='sweep v%d nrbe=%d stride=%d' % (version, nrbe, stride)), 10 if tier == 'quick' else 14))
    # single-dimension splitting: dense selections mixing splits and lmax-raising extends in one refinement round
    for i in range(8 if tier == 'quick' else 40):
        out.append((dict(D=rng.choice([2, 2, 3]), lmin=1, lmax=2, version=rng.choice([0, 0, 1, 2]), nrbe=1, single=True, dense=True, maxleaves=60,
                         name='single-dim dense %d' % i), 4))
    # natural refinement (library error estimator) of a symmetric peak near the diagonal: ties between dimensions
    for peak in ([(0.33, 20.0), (0.6, 40.0)] if tier == 'quick' else [(0.33, 20.0), (0.6, 40.0), (0.5, 30.0), (0.25, 60.0), (0.7, 15.0)]):
        for single in (True, False):
            out.append((dict(D=2, lmin=1, lmax=2, version=0, nrbe=1, single=single, peak=peak, maxleaves=80,
                             name='natural peak %s single=%s' % (peak, single)), 6 if tier == 'quick' else 9))
    # domain bounds handed over as integers (midpoints of later splits are not integers)
    for (a, b, D, kw) in [([0, 0], [4, 4], 2, dict(nrbe=2)), ([-1, -1, -1], [1, 1, 1], 3, dict()), ([0, 0], [8, 8], 2, dict(auto=True)), ([-2, 0], [2, 1], 2, dict(version=2))]:
        c = dict(D=D, lmin=1, lmax=2, version=0, nrbe=1, a=[float(x) for x in a], b=[float(x) for x in b], int_domain=True, maxleaves=60, name='integer domain %s-%s %s' % (a, b, kw))
        c.update(kw)
        out.append((c, 5 if D == 2 else 3))
    # non-cubic domains in which interior coordinates of one dimension coincide with bounds of another dimension
    for (a, b, kw) in [([0.0, 0.0], [1.0, 2.0], dict()), ([-1.0, 0.0], [1.0, 1.0], dict(version=1)), ([0.0, 0.0, 0.0], [1.0, 2.0, 4.0], dict(single=True))]:
        c = dict(D=len(a), lmin=1, lmax=2, version=0, nrbe=1, a=a, b=b, maxleaves=60, name='coincidence domain %s-%s %s' % (a, b, kw))
        c.update(kw)
        out.append((c, 5 if len(a) == 2 else 3))
    if tier == 'thorough':
        for version in (0, 1, 2):
            out.append((dict(D=3, lmin=1, lmax=2, version=version, nrbe=1, chain=rng.randint(0, 7), maxleaves=80, name='corner chain 3D v%d' % version), 5))
    return out


def signature(tr, step, clause):
    cfg = tr['_script']['cfg']
    sig = {'strategy': 'extendsplit', 'version': cfg['version'], 'lmin_ge_2': cfg['lmin'] >= 2, 'auto': cfg['auto'], 'single': cfg['single']}
    return sig


def conclude(rep, traces, prefixes):
    verdicts, st, trn = P.validate(traces)
    rep.cov['states'] += st
    rep.cov['transitions'] += trn
    rep.cov['traces_validated_against_impl'] += len(traces)
    drift = {}
    for tr, v in zip(traces, verdicts):
        for step, clause in v:
            if clause.startswith(prefixes) and rep.pid == 'C07' and tr['_script']['cfg']['version'] not in (0, 1, 2):
                # the property quantifies over the documented coarsening versions 0-2: other versions are driven to extend the coverage of the
                # specification, what they show is reported as drift and never decides the property
                k = 'version %s (outside the documented versions 0-2): %s' % (tr['_script']['cfg']['version'], clause)
                drift[k] = drift.get(k, 0) + 1
            elif clause.startswith(prefixes):
                cfg = tr['_script']['cfg']
                rep.violation(clause, signature(tr, step, clause),
                              {'script': tr['_script'], 'failing_step': step, 'detail': tr.get('_detail'), 'event': tr['events'][step - 1]},
                              what='%s at step %d of %s' % ({k: cfg[k] for k in ('D', 'lmin', 'lmax', 'version', 'nrbe', 'auto', 'single')}, step, tr['origin']))
            elif clause.startswith('I_'):
                drift[clause] = drift.get(clause, 0) + 1
    for c, n in drift.items():
        rep.drift('%s failed on %d recorded steps' % (c, n))
    rep.cov['rule'] = ('edge replay: every (state, selection) edge of the TLC graph of ExtendSplit.tla executed on the real strategy; random: scripted '
                       'benefit assignments (zeros, ties, dense) over versions 0-2, nrbe 1-2, automatic and single-dimension modes; distinct by '
                       '(configuration, benefit script)')
    rep.assumptions += ['TLC/SANY', 'projection: refinement.get_objects(), coarsen_grid(), get_points_assignement_to_areas() on the 1/8 lattice',
                        'numeric clauses evaluated by the harness (tolerance 1e-8 / 1e-10)']
    return rep.finish()


def collect(rep, tier, seed, prefixes):
    rng = random.Random(seed)
    traces = []
    for c in mc_configs(tier):
        bad = c['version'] in (1, 2) and c['lmin'] >= 2
        invs = [i for i in INVS if not (bad and i == 'C07_LocalCombination')]
        r, g = tlc.run('ExtendSplit', P.mc_cfg(c, invs), rep.pid.lower(), dump=True, timeout=3000)
        rep.tlc('ExtendSplit ' + c['name'], r, invariants=invs)
        if r.violated:
            raise tlc.TLCError('ExtendSplit.tla violates %s for %s (model-level)' % (r.violated, c['name']))
        if r.action_counts.get('RefineStep', (0, 0))[1] == 0 and r.distinct < 2:
            raise tlc.TLCError('vacuous run for ' + c['name'])
        n, mism = P.edge_replay(rep, g, c, traces, maxedges=(120 if tier == 'quick' else 2500), rng=rng)
        rep.cov['tlc_runs'][-1].update({'edges_replayed_on_impl': n, 'edge_mismatches': mism})
    for c, steps in random_configs(tier, rng):
        try:
            tr = P.random_history(rng, c, steps)
        except impl.Timeout:
            rep.exclude('random history %s timed out' % c['name'])
            continue
        except Exception as ex:
            if rep.pid != 'C07':
                # (the collection is also used by the C04 check: an exception of the extend-split strategy is judged by the C07 check, not there)
                rep.exclude('extend-split history %s raised %r (judged by the C07 check)' % (c['name'], ex))
                continue
            if rep.pid == 'C07' and c['version'] not in (0, 1, 2):
                rep.drift('version %s (outside the documented versions 0-2): random history %s raised %r' % (c['version'], c['name'], ex))
                continue
            rep.violation('C07_NoException', {'strategy': 'extendsplit', 'version': c['version'], 'lmin_ge_2': c['lmin'] >= 2, 'auto': bool(c.get('auto')), 'single': bool(c.get('single')), 'exception': type(ex).__name__},
                          {'config': str(c), 'exception': repr(ex)}, what='random history %s raised %r' % (c, ex))
            continue
        traces.append(tr)
        rep.count(1, key=('rand', json.dumps(tr['_script'], sort_keys=True)))
        rep.sample({'kind': 'random scripted history', 'cfg': tr['_script']['cfg'], 'steps': tr['_script']['steps'][:2]}, limit=3)
    return traces


def run(tier, seed):
    rep = Report(PROP, tier, seed, 'model_checking')
    traces = collect(rep, tier, seed, ('C07_', 'C01_'))
    rep.exclude('constructor option dim_adaptive=True: initialisation raises TypeError (lists handed to init_adaptive_combi_scheme); with the one-token repair the option trips '
                'assertions and produces invalid local combinations - unfinished feature, not driven')
    rep.exclude('constructor option no_initial_splitting=True: refused by the library itself (assert False in initialize_refinement)')
    return conclude(rep, traces, ('C07_', 'C01_'))


def replay(path, seed):
    rep = Report(PROP, 'quick', seed, 'model_checking')
    with open(path) as f:
        r = json.load(f)['replay']
    cfg = r['script']['cfg']
    run_ = P.ESRun(cfg['D'], cfg['lmin'], cfg['lmax'], version=cfg['version'], nrbe=cfg['nrbe'], auto=cfg['auto'], single=cfg['single'],
                   boundary=cfg['boundary'], a=cfg['a'], b=cfg['b'], margin=cfg['margin'], peak=cfg.get('peak'), extra=cfg.get('extra'), continue_via=cfg.get('continue_via', 'resume'))
    run_.evaluate()
    evs = [P.observe(run_)]
    for B in r['script']['steps']:
        if B is not None and len(B) != len(run_.leaves()):
            print('replay of an edge-replay case: only the last step is recorded; re-run the check instead')
            break
        evs.append(P.do_step(run_, B))
    tr = {'cfg': P.trace_cfg(run_), 'events': [P.strip(e) for e in evs], 'origin': 'replay', '_script': r['script'], '_detail': [e.get('_detail') for e in evs]}
    rep.count(1, key='a')
    rep.count(1, key='b')
    rep.sample({'replayed': path})
    return conclude(rep, [tr], ('C07_', 'C01_'))
