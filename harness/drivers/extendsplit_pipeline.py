"""Extend-split strategy: scripted runs, observation, edge replay and trace validation (C07, extend-split part of C04)."""
import copy
import itertools
import json
import random
from fractions import Fraction

import numpy as np

from harness.engine import impl, tlc
from harness.drivers.dimwise_common import hashval_vec

LAT = 1024


def _lib():
    from sparseSpACE.spatiallyAdaptiveExtendSplit import SpatiallyAdaptiveExtendScheme
    from sparseSpACE.Grid import TrapezoidalGrid
    from sparseSpACE.GridOperation import Integration
    from sparseSpACE.ErrorCalculator import ErrorCalculator
    from sparseSpACE.Function import Function
    return SpatiallyAdaptiveExtendScheme, TrapezoidalGrid, Integration, ErrorCalculator, Function


def multilinear_terms(D):
    return [S for k in range(D + 1) for S in itertools.combinations(range(D), k)]


def make_function(D, a, b, peak=None):
    Function = _lib()[4]
    terms = multilinear_terms(D)

    class VF(Function):
        # component 0: arbitrary (hash) function, component 1: smooth, then the multilinear monomials prod_{d in S} x_d
        def output_length(self):
            return 2 + len(terms)

        def eval_vectorized(self, coordinates):
            X = np.asarray(coordinates, dtype=float)
            shape = X.shape[:-1]
            X = X.reshape(-1, D)
            out = np.empty((len(X), 2 + len(terms)))
            if peak is None:
                out[:, 0] = hashval_vec(X, a, b)
            else:   # symmetric peak near the diagonal: drives natural (error-estimator based) refinement, ties between dimensions
                out[:, 0] = np.exp(-peak[1] * np.sum((X - peak[0]) ** 2, axis=1))
            out[:, 1] = np.exp(-np.sum((X - 0.3) ** 2, axis=1)) if peak is None else out[:, 0]
            for j, S in enumerate(terms):
                v = np.ones(len(X))
                for d in S:
                    v = v * X[:, d]
                out[:, 2 + j] = v
            return out.reshape(shape + (2 + len(terms),))

        def eval(self, coords):
            return self.eval_vectorized(np.asarray([coords], dtype=float))[0]
    return VF(), terms


def monomial_integral(S, a, b):
    v = Fraction(1)
    for d in range(len(a)):
        A, B = Fraction(float(a[d])), Fraction(float(b[d]))
        v *= (B * B - A * A) / 2 if d in S else (B - A)
    return float(v)


class ESRun:
    def __init__(self, D, lmin, lmax, version=0, nrbe=1, auto=False, single=False, boundary=True, a=None, b=None, margin=None, peak=None, int_domain=False, extra=None, continue_via='resume'):
        SA, TG, Integration, EC, _ = _lib()
        self.continue_via, self.ncont = continue_via, 0
        self.D, self.lmin, self.lmax0 = D, lmin, lmax
        self.a = np.array([0.0] * D if a is None else a, dtype=float)
        self.b = np.array([1.0] * D if b is None else b, dtype=float)
        self.f, self.terms = make_function(D, self.a, self.b, peak)
        self.natural = peak is not None
        self.grid = TG(a=self.a, b=self.b, boundary=boundary)
        self.op = Integration(f=self.f, grid=self.grid, dim=D)
        # the library accepts domain bounds given as integers (lists or integer arrays); hand them over in the type requested
        a_arg, b_arg = (np.array([int(x) for x in self.a]), np.array([int(x) for x in self.b])) if int_domain else (self.a, self.b)
        self.combi = SA(a_arg, b_arg, operation=self.op, version=version, number_of_refinements_before_extend=nrbe,
                        automatic_extend_split=auto, split_single_dim=single, **(extra or {}))
        if margin is not None:
            self.combi.margin = margin
        self.margin_req = 0.9 if margin is None else float(margin)

        class ScriptedError(EC):
            def calc_error(self, refine_object, norm, volume_weights=None):
                return 0.0
        from sparseSpACE.ErrorCalculator import ErrorCalculatorExtendSplit
        self.ec = ScriptedError() if not (auto or self.natural) else ErrorCalculatorExtendSplit()
        self.scripted = not auto
        self.started = False
        self.cfg = dict(D=D, lmin=lmin, lmax=lmax, version=version, nrbe=nrbe, auto=auto, single=single, boundary=boundary,
                        a=[float(x) for x in self.a], b=[float(x) for x in self.b], margin=float(self.combi.margin), peak=peak, extra=dict(extra or {}))

    def evaluate(self):
        with impl.quiet(), impl.watchdog(180):
            if not self.started:
                self.started = True
                self.ret = self.combi.performSpatiallyAdaptiv(self.lmin, self.lmax0, self.ec, tol=-1, max_evaluations=0, print_output=False)
            else:
                self.ncont += 1
                via = self.continue_via if self.continue_via != 'mixed' else ('container' if self.ncont % 2 else 'resume')
                if via == 'container':
                    # the documented third way to continue: a new performSpatiallyAdaptiv call that is handed the object's own refinement
                    self.ret = self.combi.performSpatiallyAdaptiv(self.lmin, self.lmax0, self.ec, tol=-1, max_evaluations=0, print_output=False,
                                                                 refinement_container=self.combi.refinement)
                else:
                    self.ret = self.combi.continue_adaptive_refinement(tol=-1, max_evaluations=0)
        return self.ret

    def leaves(self):
        return self.combi.refinement.get_objects()

    def set_benefits(self, B):
        objs = self.leaves()
        assert len(objs) == len(B)
        for o, v in zip(objs, B):
            o.benefit = float(v)
            o.error = float(v)
        self.combi.benefit_max = max([0.0] + [float(v) for v in B])

    def refine(self):
        with impl.quiet(), impl.watchdog(180):
            self.combi.refine()

    def snap(self, d, x):
        k = (float(x) - self.a[d]) / (self.b[d] - self.a[d]) * LAT
        r = round(k)
        if abs(k - r) > 1e-7:
            raise ValueError('coordinate %r not on the lattice' % (x,))
        return int(r)


def observe(run, B=None):
    c = run.combi
    D = run.D
    objs = run.leaves()
    ev = {'B': [int(x) for x in B] if B is not None else [], 'lmax': int(c.lmax[0]),  # B empty: benefits left to the library's own error estimator
          'leaves': [{'s': [run.snap(d, o.start[d]) for d in range(D)], 'e': [run.snap(d, o.end[d]) for d in range(D)],
                      'c': int(o.coarseningValue), 'n': int(o.needExtendScheme)} for o in objs],
          'scheme': [[[int(x) for x in g.levelvector], int(round(float(g.coefficient)))] for g in c.scheme]}
    coarse = []
    for o in objs:
        saved = dict(o.levelvec_dict)
        o.levelvec_dict = {}
        row = []
        for g in c.scheme:
            lv, do = c.coarsen_grid(g.levelvector, o)
            row.append([[int(x) for x in g.levelvector], [int(x) for x in lv], bool(do)])
        o.levelvec_dict = saved
        coarse.append(row)
    ev['coarse'] = coarse
    # ownership of probe points (lattice of spacing 1/8 incl. faces and corners)
    probe = list(itertools.product(*[[run.a[d] + (run.b[d] - run.a[d]) * k / 8 for k in range(9)] for d in range(D)]))
    with impl.quiet():
        assign = c.get_points_assignement_to_areas(probe)
    idx = {id(o): i + 1 for i, o in enumerate(objs)}
    owners = {p: [] for p in probe}
    for area, pts in assign:
        for p in pts:
            owners[tuple(p)].append(idx.get(id(area), 0))
    ev['owners'] = [[[run.snap(d, p[d]) for d in range(D)], owners[p]] for p in probe]
    # numeric clauses
    detail = {}
    interp_ok = True
    try:
        allpts = {}
        for i, o in enumerate(objs):
            pts = set()
            for lv, lc, do in coarse[i]:
                if not do:
                    continue
                axes = [[o.start[d] + (o.end[d] - o.start[d]) * k / 2 ** lc[d] for k in range(2 ** lc[d] + 1)] for d in range(D)]
                pts.update(itertools.product(*axes))
            # grid points of this area that are evaluated by this area's local interpolant: interior points and owned face points
            for p in pts:
                if all(o.start[d] < p[d] < o.end[d] for d in range(D)) or (p in owners and owners[p] == [i + 1]):
                    allpts[p] = i + 1
        if allpts:
            plist = list(allpts)
            # a read-only accessor asked for ONE component grid before the interpolation (what a user who inspects a grid does): it must not
            # leave anything behind that changes the interpolant
            try:
                with impl.quiet(), impl.watchdog(60):
                    gsel = c.scheme[len(objs) % len(c.scheme)]
                    c.get_points_component_grid(gsel.levelvector)
            except impl.Timeout:
                raise
            except Exception as ex:
                detail['accessor'] = repr(ex)
            with impl.quiet(), impl.watchdog(180):
                vals = np.asarray(c(plist), dtype=float)
            ref = np.asarray(run.f.eval_vectorized(np.asarray(plist)), dtype=float)[:, 0]
            bad = np.nonzero(np.abs(vals[:, 0] - ref) > 1e-8)[0]
            if len(bad):
                interp_ok = False
                detail['interp'] = [[allpts[plist[k]], list(map(float, plist[k]))] for k in bad[:5]]
        res = np.asarray(run.ret[3], dtype=float)
        ml_ok = True
        for j, S in enumerate(run.terms):
            ex = monomial_integral(S, run.a, run.b)
            if abs(res[2 + j] - ex) > 1e-10 * max(1.0, abs(ex)):
                ml_ok = False
                detail.setdefault('multilinear', []).append([list(S), float(res[2 + j]), ex])
    except impl.Timeout:
        raise
    except Exception as ex:
        interp_ok = False
        ml_ok = False
        detail['exception'] = repr(ex)
    ev['interp_ok'] = bool(interp_ok)
    ev['multilinear_ok'] = bool(ml_ok)
    ev['_detail'] = detail
    # the observation ends with the query it started with: the next state is then asked the SAME points back to back (an answer remembered
    # from the previous state would show as an owner that is no leaf any more)
    try:
        with impl.quiet():
            c.get_points_assignement_to_areas(probe)
    except Exception:
        pass
    return ev


def strip(ev):
    return {k: v for k, v in ev.items() if not k.startswith('_')}


def trace_cfg(run):
    m = Fraction(run.margin_req).limit_denominator(1000)
    return {'D': run.D, 'lmin': run.lmin, 'lmax': run.lmax0, 'version': run.cfg['version'], 'nrbe': run.cfg['nrbe'] + 1, 'lat': LAT,
            'mnum': m.numerator, 'mden': m.denominator, 'ispec': not (run.cfg['auto'] or run.cfg['single'] or run.natural)}


def benefits_for(run, sel, rng):
    n = len(run.leaves())
    m = Fraction(run.margin_req).limit_denominator(1000)
    mf = float(run.margin_req)
    lo = [b for b in range(0, 11) if b * m.denominator < m.numerator * 10 and not (b >= 10 * mf)] or [0]
    return [10 if i in sel else rng.choice(lo) for i in range(n)]


def do_step(run, B):
    if B is not None:
        run.set_benefits(B)
    run.refine()
    run.evaluate()
    return observe(run, B)


def leaf_key(ev):
    return (tuple((tuple(x['s']), tuple(x['e']), x['c'], x['n']) for x in ev['leaves']), ev['lmax'])


def spec_key(st):
    return (tuple((tuple(x['s']), tuple(x['e']), x['c'], x['n']) for x in st['leaves']), st['lmax'])


def mc_cfg(c, invs):
    return ('SPECIFICATION Spec\nCONSTANTS D = %d\n LMIN = %d\n LMAX = %d\n LAT = %d\n VERSION = %d\n NRBE = %d\n MAXSTEPS = %d\n MAXSEL = %d\nCHECK_DEADLOCK FALSE\n'
            % (c['D'], c['lmin'], c['lmax'], LAT, c['version'], c['nrbe'], c['steps'], c['maxsel']) + ''.join('INVARIANT %s\n' % i for i in invs))


def edge_replay(rep, g, c, traces, maxedges, rng):
    init = g.init[0]
    run0 = ESRun(c['D'], c['lmin'], c['lmax'], version=c['version'], nrbe=c['nrbe'])
    run0.evaluate()
    ev0 = observe(run0)
    if leaf_key(ev0) != spec_key(g.states[init]):
        rep.drift('%s: initial state differs from the specification' % c['name'])
    objs = {init: (run0, ev0)}
    out = {}
    for s, t, lab in g.edges:
        # the selection of an edge = the leaves of the source whose tree position is no longer a leaf in the target
        tp = {tuple(x['path']) for x in g.states[t]['leaves']}
        out.setdefault(s, []).append((t, frozenset(i for i, x in enumerate(g.states[s]['leaves']) if tuple(x['path']) not in tp)))
    order, seen, i = [init], {init}, 0
    n = mism = 0
    tcfg = trace_cfg(run0)
    while i < len(order):
        s = order[i]
        i += 1
        for t, sel in out.get(s, []):
            if t not in seen:
                seen.add(t)
                order.append(t)
            if s not in objs or n >= maxedges:
                continue
            run, ev_s = objs[s]
            r2 = copy.deepcopy(run)
            B = benefits_for(r2, sel, rng)
            try:
                ev = do_step(r2, B)
            except impl.Timeout:
                raise
            except Exception as ex:
                if rep.pid != 'C07':      # (edge replay used by another check: exceptions are judged by the C07 check)
                    rep.exclude('%s step %s raised %r (judged by the C07 check)' % (c['name'], sorted(sel), ex))
                    continue
                if c['version'] not in (0, 1, 2):      # outside the documented versions the property quantifies over
                    rep.drift('version %s (outside the documented versions 0-2): %s step %s raised %r' % (c['version'], c['name'], sorted(sel), ex))
                    continue
                rep.violation('C07_NoException', {'strategy': 'extendsplit', 'version': c['version'], 'exception': type(ex).__name__},
                              {'config': c['name'], 'selection': sorted(sel), 'exception': repr(ex)}, what='%s step %s raised %r' % (c['name'], sorted(sel), ex))
                continue
            n += 1
            if leaf_key(ev) != spec_key(g.states[t]):
                mism += 1
                if mism <= 3:
                    rep.drift('%s: step %s: implementation state differs from the specification' % (c['name'], sorted(sel)))
            elif t not in objs:
                objs[t] = (r2, ev)
            traces.append({'cfg': tcfg, 'events': [strip(ev_s), strip(ev)], 'origin': 'edge-replay ' + c['name'],
                           '_script': {'cfg': dict(run0.cfg), 'steps': [B]}, '_detail': [ev_s.get('_detail'), ev.get('_detail')]})
            rep.count(1, key=(c['name'], s, tuple(sorted(sel))))
    return n, mism


def resolvable(run):
    """every local component grid of every leaf has its points on the lattice of the trace specification: width in lattice units >= 2^(local level)"""
    lmax = int(run.combi.lmax[0])
    for o in run.leaves():
        top = max(0, lmax - int(o.coarseningValue))
        for d in range(run.D):
            w = (o.end[d] - o.start[d]) * LAT / (run.b[d] - run.a[d])
            if w < 2 ** top - 1e-9:
                return False
    return True


def random_history(rng, c, steps):
    via = c.get('continue_via') or rng.choice(['resume', 'resume', 'resume', 'container', 'mixed'])
    run = ESRun(c['D'], c['lmin'], c['lmax'], version=c['version'], nrbe=c['nrbe'], auto=c.get('auto', False), single=c.get('single', False),
                boundary=c.get('boundary', True), a=c.get('a'), b=c.get('b'), margin=c.get('margin'), peak=c.get('peak'), int_domain=c.get('int_domain', False), extra=c.get('extra'), continue_via=via)
    run.evaluate()
    evs = [observe(run)]
    script = []
    for _ in range(steps):
        n = len(run.leaves())
        if n > c.get('maxleaves', 40):
            break
        mode = rng.random()
        if c.get('peak') is not None:
            B = None
        elif c.get('chain') is not None:
            # always refine the leaf that contains a fixed corner of the domain (a point singularity)
            corner = [run.b[d] if (c['chain'] >> d) & 1 else run.a[d] for d in range(run.D)]
            B = [10 if all(o.start[d] <= corner[d] <= o.end[d] for d in range(run.D)) else 0 for o in run.leaves()]
        elif c.get('sweep') is not None:
            # one leaf per step, the leaves visited in turn: after the first extend that raises lmax the following steps extend single areas whose
            # coarsening value is positive (the leaf is replaced by a new object with the same box, neither the number of leaves nor lmax change)
            k = (len(script) * c['sweep']) % n
            B = [10 if i == k else 0 for i in range(n)]
        elif c.get('dense'):
            B = [10 if rng.random() < 0.5 else rng.randint(0, 6) for _ in range(n)]
            if 10 not in B:
                B[rng.randrange(n)] = 10
        elif mode < 0.15:
            B = [0] * n
        elif mode < 0.3:
            B = [5] * n
        else:
            B = [10 if rng.random() < 0.25 else rng.randint(0, 6) for _ in range(n)]
            if 10 not in B:
                B[rng.randrange(n)] = 10
        if any(min(o.end[d] - o.start[d] for d in range(run.D)) * LAT / (run.b[0] - run.a[0]) < 4 for o in run.leaves()):
            break
        evs.append(do_step(run, B))
        script.append(B)
        if not resolvable(run):
            # the finest local grid of some area is finer than the lattice of the trace specification (deep extend chains raise lmax quickly):
            # the state cannot be expressed on the lattice, the history ends with the previous state
            evs.pop()
            script.pop()
            break
    return {'cfg': trace_cfg(run), 'events': [strip(e) for e in evs], 'origin': 'random ' + c['name'] + ('' if via == 'resume' else ' (continued via %s)' % via),
            '_script': {'cfg': dict(run.cfg, continue_via=via), 'steps': script}, '_detail': [e.get('_detail') for e in evs]}


def validate(traces):
    clean = [{k: v for k, v in t.items() if not k.startswith('_')} for t in traces]
    return tlc.validate_traces('ExtendSplitTrace', clean, 'extendsplit', chunk=200)
