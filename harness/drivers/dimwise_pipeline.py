"""Shared pipeline for the dimension-wise strategy (C03, C04, C06):
TLC model checking of spec/DimWise.tla -> exhaustive edge replay on the real strategy -> random deeper
histories -> batch validation of every recorded execution against spec/DimWiseTrace.tla."""
import copy
import itertools
import random
from fractions import Fraction

import numpy as np

from harness.engine import impl, tlc
from harness.drivers.dimwise_common import DimWiseRun, LAT, hashval_vec, hat_integral, hat1d_vec

MC_INVS = ['C06_Tiling', 'C06_EndLevels', 'C06_BinaryTree', 'C06_LmaxCovers', 'C06_NoAbort', 'C01_Scheme',
           'C03_SchemeWithinLmax', 'C03_ContainsEnds', 'C03_Monotone', 'C03_CoeffSumOne', 'C04_InitialSpaceExact']


def mc_cfg(c, invs):
    b = lambda x: 'TRUE' if x else 'FALSE'
    return ('SPECIFICATION Spec\nCONSTANTS D = %d\n LMIN = %d\n LMAX = %d\n LAT = %d\n VERSION = %d\n REBALANCE = %s\n SFN = %d\n SFD = %d\n'
            ' BOUNDARY = %s\n MAXSTEPS = %d\n MAXSEL = %d\n SELDIMS = %s\nCHECK_DEADLOCK FALSE\n' % (
                c['D'], c['lmin'], c['lmax'], LAT, c['version'], b(c['rebalancing']), c['sfn'], c['sfd'], b(c['boundary']),
                c['steps'], c['maxsel'], '{' + ', '.join(str(d) for d in c.get('seldims', range(1, c['D'] + 1))) + '}') + ''.join('INVARIANT %s\n' % i for i in invs))


def margin_fraction(m):
    return Fraction(m).limit_denominator(1000)


# ------------------------------------------------------------------------------------------------ observation
def observe(run, B=None, aborted=False):
    """event for the trace after an evaluation"""
    st = run.project(with_points=False)
    c = run.combi
    D = run.D
    ev = {'B': B if B is not None else [[] for _ in range(D)], 'tree': st['tree'], 'lmax': st['lmax'], 'active': st['active'],
          'old': st['old'], 'scheme': st['scheme'], 'cursors': st['cursors'], 'aborted': aborted}
    # a read-only accessor asked first (the points of one component grid, as a user who inspects or plots a grid asks for them): it must not
    # change what is observed afterwards
    acc_note = None
    if not aborted and len(c.scheme):
        try:
            with impl.quiet(), impl.watchdog(60):
                c.get_points_component_grid(c.scheme[len(st['tree'][0]) % len(c.scheme)].levelvector)
        except impl.Timeout:
            raise
        except Exception as ex:
            acc_note = repr(ex)
    # P table: point list for every level lmin..lmax[d] (queried through the public point routine)
    P = []
    for d in range(D):
        rows = []
        for l in range(run.lmin, st['lmax'][d] + 1):
            lv = [min(max(l, run.lmin), st['lmax'][k]) for k in range(D)]
            lv[d] = l
            with impl.quiet():
                coords, _, _ = c.get_point_coord_for_each_dim(lv)
            rows.append([run.snap(d, x) for x in coords[d]])
        P.append(rows)
    ev['P'] = P
    grids = []
    union = {}
    for g in c.scheme:
        with impl.quiet():
            coords, _, _ = c.get_point_coord_for_each_dim(g.levelvector)
        lists = [[run.snap(d, x) for x in coords[d]] for d in range(D)]
        grids.append([[int(x) for x in g.levelvector], lists, int(g.coefficient)])
        fl = [list(map(float, coords[d])) for d in range(D)]
        if not run.boundary:
            fl = [x[1:-1] for x in fl]
        for pt in itertools.product(*fl):
            union[pt] = True
    ev['grids'] = sorted(grids)
    # numeric clauses
    pts = list(union.keys())
    interp_ok, hats_ok = True, [True] * len(run.hats)
    detail = {}
    try:
        # the fixed evaluation lattice is asked first (the previous observation ended with the same query: consecutive states see it back to
        # back) and again at the end, after another query: within one state the two answers must agree
        n0 = 2 ** (run.lmax0 + 1)
        X0 = list(itertools.product(*[[run.a[d] + (run.b[d] - run.a[d]) * k / n0 for k in range(n0 + 1)] for d in range(D)]))
        with impl.quiet(), impl.watchdog(120):
            XV0 = np.asarray(c(X0), dtype=float)
        with impl.quiet(), impl.watchdog(120):
            vals = np.asarray(c(pts)) if pts else np.zeros((0, 2 + len(run.hats)))
        if pts:
            ref0 = hashval_vec(np.asarray(pts), run.a, run.b)
            bad = np.nonzero(np.abs(vals[:, 0] - ref0) > 1e-8)[0]
            if len(bad):
                interp_ok = False
                detail['interp'] = [[list(pts[k]), float(vals[k, 0]), int(ref0[k])] for k in bad[:5]]
        res = np.asarray(run.ret[3], dtype=float)
        # lattice of evaluation points finer than the initial grid (includes non-grid points)
        n = 2 ** (run.lmax0 + 1)
        axes = [[run.a[d] + (run.b[d] - run.a[d]) * k / n for k in range(n + 1)] for d in range(D)]
        X = list(itertools.product(*axes))
        XA = np.asarray(X)
        with impl.quiet(), impl.watchdog(120):
            XV = np.asarray(c(X))
        mid = getattr(run, '_mid', None)
        run._mid = None
        if mid is not None and (mid.shape != XV0.shape or not np.allclose(mid, XV0, rtol=0, atol=1e-12, equal_nan=True)):
            # asked right after the refinement step, before the next evaluation: the interpolant is a function of the refinement only
            interp_ok = False
            detail['stale'] = 'the interpolant asked between the refinement step and the following evaluation differs from the one asked after that evaluation'
        if XV0.shape != np.asarray(XV, dtype=float).shape or not np.allclose(XV0, np.asarray(XV, dtype=float), rtol=0, atol=1e-12, equal_nan=True):
            interp_ok = False
            detail['stale'] = 'the interpolant at the fixed lattice differs between two calls in the same state (first call right after the previous state)'
        for j, h in enumerate(run.hats):
            exact = float(hat_integral(h, run.a, run.b))
            ok = abs(res[2 + j] - exact) <= 1e-10 * max(1.0, abs(exact))
            if ok and not getattr(run, 'modified_basis', False):
                # (with the modified basis the library's interpolation keeps zero boundary values: linear functions are integrated exactly by the
                # initial configuration but not interpolated exactly near the boundary, so only the integrals are demanded to stay exact)
                ref = np.ones(len(XA))
                for d, (l, i) in enumerate(h):
                    ref = ref * hat1d_vec(l, i, run.a[d], run.b[d], XA[:, d])
                ok = bool(np.all(np.abs(XV[:, 2 + j] - ref) <= 1e-9))
            hats_ok[j] = bool(ok)
    except impl.Timeout:
        raise
    except Exception as ex:   # the library raised inside the property's quantifier: clause fails
        interp_ok = False
        detail['exception'] = repr(ex)
    ev['interp_ok'] = bool(interp_ok)
    ev['hats_ok'] = hats_ok
    ev['_detail'] = detail
    return ev


def strip(ev):
    return {k: v for k, v in ev.items() if not k.startswith('_') and k != 'cursors'}


def trace_cfg(run, lmax0):
    m = margin_fraction(run.margin_req)
    sf = Fraction(run.cfg['safety']).limit_denominator(1000)
    return {'D': run.D, 'lmin': run.lmin, 'lmax': lmax0, 'version': run.cfg['version'], 'rebalancing': bool(run.cfg['rebalancing']),
            'boundary': bool(run.boundary), 'mnum': m.numerator, 'mden': m.denominator, 'sfn': sf.numerator, 'sfd': sf.denominator, 'lat': LAT,
            'hats': [] if getattr(run, 'modified_basis', False) else [[[l, i] for (l, i) in h] for h in run.hats]}      # the discrete criterion speaks about hats only


# ------------------------------------------------------------------------------------------------ scripted steps
def benefits_for_selection(run, sel, rng, allow_zero=True):
    """integer benefits (0..10) whose selection under the run's margin is exactly `sel` (set of (d, i), 0-based)"""
    m = margin_fraction(run.margin_req)
    mf = float(run.margin_req)
    n = [len(run.intervals(d)) for d in range(run.D)]
    total = sum(n)
    if len(sel) == total and allow_zero and rng.random() < 0.3:
        return [[0] * n[d] for d in range(run.D)]
    B = [[0] * n[d] for d in range(run.D)]
    hi = [b for b in range(0, 11) if b * m.denominator >= m.numerator * 10 and (b >= 10 * mf)]
    lo = [b for b in range(0, 11) if b * m.denominator < m.numerator * 10 and not (b >= 10 * mf)]
    first = True
    for d in range(run.D):
        for i in range(n[d]):
            if (d, i) in sel:
                B[d][i] = 10 if first else rng.choice(hi)
                first = False
            else:
                B[d][i] = rng.choice(lo) if lo else 0
    return B


def selection_of(run, B):
    m = margin_fraction(run.margin_req)
    mx = max([0] + [v for row in B for v in row])
    return {(d, i) for d in range(run.D) for i, v in enumerate(B[d]) if v * m.denominator >= m.numerator * mx}


def random_benefits(run, rng):
    m = margin_fraction(run.margin_req)
    mf = float(run.margin_req)
    n = [len(run.intervals(d)) for d in range(run.D)]
    mode = rng.random()
    if mode < 0.1:
        return [[0] * k for k in n]
    if mode < 0.2:
        v = rng.randint(1, 10)
        return [[v] * k for k in n]
    B = [[rng.choice([0, 0, 1, 2, 3, 5, 7, 8, 9, 10]) if mode < 0.7 else (10 if rng.random() < 0.15 else rng.randint(0, 6)) for _ in range(k)] for k in n]
    mx = max([0] + [v for row in B for v in row])
    for row in B:       # remove cases where floating point and rational arithmetic disagree at the margin
        for i, v in enumerate(row):
            if (v >= mx * mf) != (v * m.denominator >= m.numerator * mx):
                row[i] = max(0, v - 1)
    return B


def do_step(run, B):
    """benefits -> refine -> evaluate; returns the event (aborted when the library raises AssertionError)"""
    run.set_benefits(B)
    try:
        run.refine()
        run._mid = None
        if getattr(run, 'steps_done', 0) % 2 == 0 and not getattr(run, 'modified_basis', False):
            # every second step the combined interpolant is asked right after the refinement, before the next evaluation
            try:
                n0 = 2 ** (run.lmax0 + 1)
                X0 = list(itertools.product(*[[run.a[d] + (run.b[d] - run.a[d]) * k / n0 for k in range(n0 + 1)] for d in range(run.D)]))
                with impl.quiet(), impl.watchdog(120):
                    run._mid = np.asarray(run.combi(X0), dtype=float)
            except impl.Timeout:
                raise
            except AssertionError:
                raise
            except Exception:
                run._mid = None      # asking at this moment is not supported by every configuration: no verdict from the attempt itself
        run.steps_done = getattr(run, 'steps_done', 0) + 1
        run.evaluate()
    except AssertionError as ex:
        ev = observe_safe(run, B, aborted=True)
        ev['_detail']['abort'] = repr(ex)
        return ev
    return observe(run, B)


def observe_safe(run, B, aborted):
    try:
        return observe(run, B, aborted=aborted)
    except Exception as ex:
        st = run.project(with_points=False)
        return {'B': B, 'tree': st['tree'], 'lmax': st['lmax'], 'active': st['active'], 'old': st['old'], 'scheme': st['scheme'],
                'P': [[] for _ in range(run.D)], 'grids': [], 'interp_ok': False, 'hats_ok': [False], 'aborted': aborted,
                '_detail': {'exception': repr(ex)}}


# ------------------------------------------------------------------------------------------------ spec -> code
def spec_state_key(st):
    return (tuple(tuple((p['p'], p['lv']) for p in t) for t in st['tree']), tuple(st['lmax']),
            frozenset(map(tuple, st['active'])), frozenset(map(tuple, st['old'])),
            frozenset((tuple(p[0]), p[1]) for p in st['scheme']),
            tuple(tuple(sorted((l, tuple(sorted(s))) for l, s in _fn_items(pd))) for pd in st['pts']))


def _fn_items(f):
    if isinstance(f, dict):
        return f.items()
    raise TypeError(f)


def impl_state_key(ev, lmin):
    tree = tuple(tuple([(iv[0]['s'], iv[0]['ls'])] + [(x['e'], x['le']) for x in iv]) for iv in ev['tree'])
    pts = tuple(tuple(sorted((lmin + k, tuple(sorted(row))) for k, row in enumerate(rows))) for rows in ev['P'])
    return (tree, tuple(ev['lmax']), frozenset(map(tuple, ev['active'])), frozenset(map(tuple, ev['old'])),
            frozenset((tuple(p[0]), p[1]) for p in ev['scheme']), pts)


def normalise_spec_state(st, D, lmin):
    """TLC prints functions with domain 1..n as tuples; a P table  lmin..lmax -> set  with lmin = 1 arrives as a tuple"""
    pts = []
    for pd in st['pts']:
        if isinstance(pd, tuple):
            pd = {i + 1: s for i, s in enumerate(pd)}
        pts.append(pd)
    st = dict(st)
    st['pts'] = pts
    return st


def edge_replay(rep, g, c, traces, maxedges=None, rng=None):
    init = g.init[0]
    for k in g.states:
        g.states[k] = normalise_spec_state(g.states[k], c['D'], c['lmin'])
    run0 = DimWiseRun(c['D'], c['lmin'], c['lmax'], version=c['version'], rebalancing=c['rebalancing'], boundary=c['boundary'],
                      safety=c['sfn'] / c['sfd'], margin=c.get('margin'))
    run0.evaluate()
    ev0 = observe(run0)
    if impl_state_key(ev0, c['lmin']) != spec_state_key(g.states[init]):
        rep.drift('%s: initial state differs from the specification' % c['name'])
    objs = {init: (run0, ev0, [])}
    out = {}
    aborted_targets = {}
    for s, t, lab in g.edges:
        # the selection of an edge is determined by the positions that were added (rebalancing never moves points)
        S, Tt = g.states[s], g.states[t]
        if Tt['aborted']:
            aborted_targets.setdefault(s, set()).add(t)
            continue
        sel = set()
        for d in range(c['D']):
            ps = [p['p'] for p in S['tree'][d]]
            new = {p['p'] for p in Tt['tree'][d]} - set(ps)
            for i in range(len(ps) - 1):
                if (ps[i] + ps[i + 1]) // 2 in new:
                    sel.add((d, i))
        out.setdefault(s, {}).setdefault(frozenset(sel), set()).add(t)
    if aborted_targets:
        rep.cov.setdefault('spec_abort_states', 0)
        rep.cov['spec_abort_states'] += sum(len(v) for v in aborted_targets.values())
    order, seen, i = [init], {init}, 0
    nedges = mism = 0
    tcfg = trace_cfg(run0, c['lmax'])
    while i < len(order):
        s = order[i]
        i += 1
        for sel, targets in sorted(out.get(s, {}).items(), key=lambda kv: sorted(kv[0])):
            for t in targets:
                if t not in seen:
                    seen.add(t)
                    order.append(t)
            if s not in objs:
                continue
            if maxedges is not None and nedges >= maxedges:
                continue
            run, ev_s, path = objs[s]
            r2 = copy.deepcopy(run)
            B = benefits_for_selection(r2, set(sel), rng)
            dec = path + [sorted((d, r2.snap(d, r2.intervals(d)[i].start), r2.snap(d, r2.intervals(d)[i].end)) for d, i in selection_of(r2, B))]
            ev = do_step(r2, B)
            nedges += 1
            key = impl_state_key(ev, c['lmin']) if not ev['aborted'] else None
            hit = None
            for t in targets:
                if g.states[t]['aborted'] and ev['aborted']:
                    hit = t
                elif not g.states[t]['aborted'] and key == spec_state_key(g.states[t]):
                    hit = t
            if hit is None:
                mism += 1
                if mism <= 3:
                    rep.drift('%s: step %s from a state at depth %d: implementation state differs from every specification successor'
                              % (c['name'], sorted(sel), g.states[s]['steps']))
            elif hit not in objs and not ev['aborted']:
                objs[hit] = (r2, ev, dec)
            traces.append({'cfg': tcfg, 'fresh': s == init, 'events': [strip(ev_s), strip(ev)], 'origin': 'edge-replay ' + c['name'],
                           '_script': {'cfg': dict(run0.cfg), 'start_depth': g.states[s]['steps'], 'steps': [B]}, '_detail': [ev_s.get('_detail'), ev.get('_detail')],
                           '_decisions': dec, '_first_step': len(dec)})
            rep.count(1, key=(c['name'], s, tuple(sorted(sel))))
    return nedges, mism, len([s for s in g.states if s not in objs])


# ------------------------------------------------------------------------------------------------ code -> spec
def random_history(rng, c, steps):
    # a third of the histories continue the run by handing the object's own refinement container to a new performSpatiallyAdaptiv call
    via = c.get('continue_via') or rng.choice(['resume', 'resume', 'resume', 'resume', 'container', 'mixed'])
    run = DimWiseRun(c['D'], c['lmin'], c['lmax'], version=c['version'], rebalancing=c['rebalancing'], boundary=c['boundary'],
                     safety=c['sfn'] / c['sfd'], margin=c.get('margin'), a=c.get('a'), b=c.get('b'), max_hats=c.get('max_hats'), hat_seed=rng.randint(0, 10 ** 6), int_domain=c.get('int_domain', False),
                     continue_via=via, extra=c.get('extra'), modified_basis=c.get('modified', False))
    run.evaluate()
    evs = [observe(run)]
    script = []
    decisions = []
    for _ in range(steps):
        if sum(len(run.intervals(d)) for d in range(run.D)) > c.get('maxintervals', 40):
            break
        B = random_benefits(run, rng)
        sel = selection_of(run, B)
        decisions.append(sorted((d, run.snap(d, run.intervals(d)[i].start), run.snap(d, run.intervals(d)[i].end)) for d, i in sel))
        ev = do_step(run, B)
        evs.append(ev)
        script.append(B)
        if ev['aborted']:
            break
    return {'cfg': trace_cfg(run, c['lmax']), 'fresh': True, 'events': [strip(e) for e in evs], 'origin': 'random ' + c['name'] + ('' if via == 'resume' else ' (continued via %s)' % via),
            '_script': {'cfg': dict(run.cfg, continue_via=via), 'start_depth': 0, 'steps': script}, '_detail': [e.get('_detail') for e in evs],
            '_decisions': decisions}


def paired_history(rng, c1, c2, steps):
    """two strategy objects with different configurations alive at the same time, refined alternately: each must behave as if alone"""
    runs = []
    for c in (c1, c2):
        run = DimWiseRun(c['D'], c['lmin'], c['lmax'], version=c['version'], rebalancing=c['rebalancing'], boundary=c['boundary'],
                         safety=c['sfn'] / c['sfd'], margin=c.get('margin'), a=c.get('a'), b=c.get('b'), max_hats=c.get('max_hats'), hat_seed=rng.randint(0, 10 ** 6),
                         int_domain=c.get('int_domain', False))
        runs.append(run)
    for run in runs:
        run.evaluate()
    evs = [[observe(run)] for run in runs]
    scripts, decisions, dead = [[], []], [[], []], [False, False]
    for _ in range(steps):
        for i, (run, c) in enumerate(zip(runs, (c1, c2))):
            if dead[i] or sum(len(run.intervals(d)) for d in range(run.D)) > c.get('maxintervals', 40):
                continue
            B = random_benefits(run, rng)
            sel = selection_of(run, B)
            decisions[i].append(sorted((d, run.snap(d, run.intervals(d)[j].start), run.snap(d, run.intervals(d)[j].end)) for d, j in sel))
            ev = do_step(run, B)
            evs[i].append(ev)
            scripts[i].append(B)
            dead[i] = ev['aborted']
    return [{'cfg': trace_cfg(run, c['lmax']), 'fresh': True, 'events': [strip(e) for e in evs[i]], 'origin': 'paired ' + c['name'],
             '_script': {'cfg': dict(run.cfg), 'start_depth': 0, 'steps': scripts[i]}, '_detail': [e.get('_detail') for e in evs[i]], '_decisions': decisions[i]}
            for i, (run, c) in enumerate(zip(runs, (c1, c2)))]


def chain_history(c, pattern, hat_seed=0):
    """deterministic history: every step refines the first ('F') or last ('L') interval of the named dimensions only, e.g.
    [('L', (0, 1)), ('L', (0,))] = last interval of dimensions 0 and 1, then last interval of dimension 0.  The same object is
    observed (scheme, point sets, interpolation) after every step."""
    run = DimWiseRun(c['D'], c['lmin'], c['lmax'], version=c['version'], rebalancing=c['rebalancing'], boundary=c['boundary'],
                     safety=c['sfn'] / c['sfd'], margin=c.get('margin'), a=c.get('a'), b=c.get('b'), max_hats=c.get('max_hats'), hat_seed=hat_seed, int_domain=c.get('int_domain', False))
    run.evaluate()
    evs = [observe(run)]
    script = []
    decisions = []
    for side, dims in pattern:
        if sum(len(run.intervals(d)) for d in range(run.D)) > c.get('maxintervals', 40):
            break
        B = []
        for d in range(run.D):
            n = len(run.intervals(d))
            row = [0] * n
            if side == 'I':
                # dims: {dimension: [interval indices (negative = from the end)]}
                for i in dims.get(d, []):
                    if -n <= i < n:
                        row[i] = 10
            elif d in dims:
                row[0 if side == 'F' else n - 1] = 10
            B.append(row)
        if not any(v for row in B for v in row):
            break
        sel = selection_of(run, B)
        decisions.append(sorted((d, run.snap(d, run.intervals(d)[i].start), run.snap(d, run.intervals(d)[i].end)) for d, i in sel))
        ev = do_step(run, B)
        evs.append(ev)
        script.append(B)
        if ev['aborted']:
            break
    return {'cfg': trace_cfg(run, c['lmax']), 'fresh': True, 'events': [strip(e) for e in evs], 'origin': 'chain ' + c['name'],
            '_script': {'cfg': dict(run.cfg), 'start_depth': 0, 'steps': script}, '_detail': [e.get('_detail') for e in evs],
            '_decisions': decisions}


def replay_decisions(cfg, decisions, **override):
    """re-run a decision history (list of steps, each a list of (d, s, e) lattice intervals) under a modified configuration;
    returns list of hats_ok-all booleans per event"""
    kw = dict(cfg)
    kw.update(override)
    run = DimWiseRun(kw['D'], kw['lmin'], kw['lmax'], version=kw['version'], rebalancing=kw['rebalancing'], boundary=kw['boundary'],
                     safety=kw['safety'], margin=kw['margin'], a=kw['a'], b=kw['b'])
    run.evaluate()
    oks = [all(observe(run)['hats_ok'])]
    for dec in decisions:
        want = set(map(tuple, dec))
        B = []
        for d in range(run.D):
            B.append([10 if (d, run.snap(d, o.start), run.snap(d, o.end)) in want else 0 for o in run.intervals(d)])
        if not any(v for row in B for v in row):
            break
        ev = do_step(run, B)
        oks.append(all(ev['hats_ok']) and not ev['aborted'])
    return oks


def validate(traces):
    clean = [{k: v for k, v in t.items() if not k.startswith('_')} for t in traces]
    return tlc.validate_traces('DimWiseTrace', clean, 'dimwise', chunk=250)
