"""C11 - Romberg extrapolation grids give consistent, exact-to-order weights.

spec/Romberg.tla: every dyadic refinement tree of depth <= M (M = 3 with polynomial exactness, M = 4 with sum / linear
exactness) for every slice grouping and slice version; TLC derives the sliced / container Romberg weights, the balanced
extrapolation weights and the forced full tree exactly (integer arithmetic in units 1/Q) and checks all identities of the
property in every state.  Implementation: one test per state of the TLC graph - ExtrapolationGrid (fresh and re-used objects,
default and Simpson containers, with and without forced full tree), GlobalRombergGrid (cache on / off),
BalancedExtrapolationGrid / GlobalBalancedRombergGrid, GridBinaryTree - on several intervals; the recorded weights are
snapped to the 1/Q lattice and TLC evaluates the property clauses on them (spec/RombergTrace.tla) and compares them with the
weights the specification computes (I_ clauses)."""
import json
import random

import numpy as np

from harness.engine import impl, tlc
from harness.engine.report import Report

PROP = 'C11'
POLY_ONE = POLY_X = None
GROUPINGS = {'UNIT': 'UNIT', 'GROUPED': 'GROUPED', 'OPT': 'GROUPED_OPTIMIZED'}
SLICEVS = {'ROMBERG': 'ROMBERG_DEFAULT', 'TRAPEZOID': 'TRAPEZOID'}
INTERVALS_Q = [(0.0, 1.0), (-1.0, 3.0), (0.1, 0.7), (0.0, 1e-8)]      # (the last one: step widths far below any absolute tolerance)
INTERVALS_T = INTERVALS_Q + [(3e5, 3e5 + 2.0 ** -10), (1.0 / 3.0, 2.0), (2.0, 2.5), (-7.3, -1.1), (1e-3, 5e3), (-1e-2, 1e-2)]


def P(t):
    r = 1
    for k in range(1, t + 1):
        r *= 4 ** k - 1
    return r


def lev(x, M):
    N = 2 ** M
    if x in (0, N):
        return 0
    t = 0
    while x % 2 == 0:
        x //= 2
        t += 1
    return M - t


def has_grouped_container(pts, M, grouping):
    """independent of the library: is there a run of >= 2 equal-width slices that stays grouped"""
    if grouping == 'UNIT':
        return False
    g = [0] + sorted(pts) + [2 ** M]
    wd = [g[i + 1] - g[i] for i in range(len(g) - 1)]
    i = 0
    while i < len(wd):
        j = i
        while j + 1 < len(wd) and wd[j + 1] == wd[i]:
            j += 1
        n = j - i + 1
        if n >= 2 and (grouping == 'OPT' or (n & (n - 1)) == 0):
            return True
        i = j + 1
    return False


def snap(vals, scale, tol=2e-3):
    out = []
    for v in vals:
        q = float(v) * scale
        r = round(q)
        if abs(q - r) > tol * max(1.0, abs(q) * 1e-6) or abs(r) >= 2 ** 31:
            return None
        out.append(int(r))
    return out


def float_identities(grid, w, a, b, m_complete, poly_deg):
    """fallback when weights are not on the 1/Q lattice: the identities in floating point (scaled to [−1/2, 1/2])"""
    x = (np.asarray(grid, dtype=float) - (a + b) / 2.0) / (b - a)
    w = np.asarray(w, dtype=float) / (b - a)
    bad = []
    if abs(w.sum() - 1.0) > 1e-10:
        bad.append('C11_WeightSum')
    if abs((w * x).sum()) > 1e-10:
        bad.append('C11_LinearExact')
    if m_complete is not None:
        for k in range(2, poly_deg + 1):
            ex = 0.0 if k % 2 else 2 * 0.5 ** (k + 1) / (k + 1)
            if abs((w * x ** k).sum() - ex) > 1e-10:
                bad.append('C11_PolyExact')
                break
    return bad


def run(tier, seed):
    rep = Report(PROP, tier, seed, 'model_checking')
    rng = random.Random(seed)
    impl.check_import()
    from sparseSpACE.Extrapolation import (ExtrapolationGrid, BalancedExtrapolationGrid, GridBinaryTree, SliceGrouping, SliceVersion,
                                           SliceContainerVersion)
    from sparseSpACE.Grid import GlobalRombergGrid, GlobalBalancedRombergGrid
    from sparseSpACE.Function import Polynomial1d
    global POLY_ONE, POLY_X
    POLY_ONE, POLY_X = Polynomial1d([1]), Polynomial1d([0, 1])
    intervals = INTERVALS_Q if tier == 'quick' else INTERVALS_T
    seen_force = set()
    for M in (3, 4):
        N = 2 ** M
        Q = 2 * N * P(M)
        for gk, gname in GROUPINGS.items():
            for sk, sname in SLICEVS.items():
                consts = 'CONSTANTS M = %d\n GROUPING = "%s"\n SLICEV = "%s"\n POLY = %s\n' % (M, gk, sk, 'TRUE' if M <= 3 else 'FALSE')
                cfg = ('SPECIFICATION Spec\n' + consts + 'INVARIANT TypeOK\nINVARIANT C11_WeightSum\nINVARIANT C11_LinearExact\nINVARIANT C11_PolyExact\n'
                       'INVARIANT C11_BalancedSum\nINVARIANT C11_BalancedLinear\nINVARIANT C11_BalancedPoly\nINVARIANT C11_BalancedDefined\nINVARIANT C11_ForceFull\n'
                       'PROPERTY C11_ForceAction\nCHECK_DEADLOCK FALSE\n')
                r, g = tlc.run('Romberg', cfg, 'c11', dump=True, timeout=1800)
                rep.tlc('Romberg M=%d %s %s' % (M, gk, sk), r)
                if r.violated:
                    raise tlc.TLCError('Romberg.tla violates %s' % r.violated)
                if r.distinct < (26 if M == 3 else 677):
                    raise tlc.TLCError('vacuous: only %d trees' % r.distinct)
                force_edges = {}
                for s, d, lab in g.edges:
                    if tlc.parse_action(lab)[0] == 'Force' or lab.startswith('Force'):
                        force_edges[s] = d
                if not force_edges:
                    # dot labels may be plain 'Next': derive Force edges from the state difference
                    for s, d, lab in g.edges:
                        if len(g.states[d]['pts']) - len(g.states[s]['pts']) != 1:
                            force_edges[s] = d
                if not force_edges:
                    raise tlc.TLCError('vacuous: no Force edge in the graph')
                reuse = {(cv, fo): ExtrapolationGrid(getattr(SliceGrouping, gname), getattr(SliceVersion, sname), getattr(SliceContainerVersion, cv), force_balanced_refinement_tree=fo)
                         for cv in ('ROMBERG_DEFAULT', 'SIMPSON_ROMBERG') for fo in (False, True)}
                aliased = {(cv, fo): (ExtrapolationGrid(getattr(SliceGrouping, gname), getattr(SliceVersion, sname), getattr(SliceContainerVersion, cv), force_balanced_refinement_tree=fo), [], [])
                           for cv in ('ROMBERG_DEFAULT', 'SIMPSON_ROMBERG') for fo in (False, True)}
                glob = {dc: GlobalRombergGrid([0.0], [1.0], do_cache=dc, slice_grouping=getattr(SliceGrouping, gname), slice_version=getattr(SliceVersion, sname)) for dc in (True, False)}
                traces = []
                order = sorted(g.states, key=lambda s: sorted(g.states[s]['pts']))
                rng.shuffle(order)       # history of the re-used objects depends on the seed
                for si, sid in enumerate(order):
                    pts = sorted(g.states[sid]['pts'])
                    ivs = intervals if (M == 3 or tier == 'thorough') else [intervals[si % len(intervals)]]
                    for (a, b) in ivs:
                        grid = [a + (b - a) * p / N for p in [0] + pts + [N]]
                        levels = [lev(p, M) for p in [0] + pts + [N]]
                        evs = []
                        ctx = {'M': M, 'grouping': gname, 'slice_version': sname, 'pts': pts, 'interval': [a, b]}

                        def lattice(xs):
                            out = []
                            for x in xs:
                                k = (x - a) / (b - a) * N
                                if abs(k - round(k)) > 1e-7:
                                    return None
                                out.append(int(round(k)))
                            return out

                        def weights_event(label, forced, cv, fn):
                            sig = {'api': label.split(':')[0], 'container': cv, 'forced': forced,
                                   'grouped_container': has_grouped_container(pts if not forced else sorted(set(pts) | {2 * par - p for p, par in parents(pts, M)}), M, gk)}
                            try:
                                with impl.quiet(), impl.watchdog(60):
                                    gg, w = fn()
                            except impl.Timeout:
                                raise
                            except Exception as ex:
                                s2 = dict(sig, exception=type(ex).__name__)
                                rep.violation('C11_NoException', s2, dict(ctx, call=label, exception=repr(ex)), what='%s on %s raised %r' % (label, ctx, ex))
                                return
                            gl = lattice(gg)
                            if gl is None or gl[0] != 0 or gl[-1] != N or len(w) != len(gg):
                                rep.violation('C11_ForceOnlyTreePoints' if forced else 'C11_WeightPerPoint', sig, dict(ctx, call=label, grid=list(map(float, gg)), nweights=len(w)),
                                              what='%s: grid %s / %d weights not a dyadic grid with one weight per point' % (label, list(gg), len(w)))
                                return
                            wq = snap(w, N * Q / (b - a))
                            if wq is None:
                                mc = next((m for m in range(1, M + 1) if gl[1:-1] == [x for x in range(1, N) if lev(x, M) <= m]), None)
                                bad = float_identities(gg, w, a, b, mc if (cv == 'ROMBERG_DEFAULT' and sk == 'ROMBERG') else None, 2 * (mc or 0) + 1)
                                for c in bad:
                                    rep.violation(c, sig, dict(ctx, call=label, weights=list(map(float, w))), what='%s on %s: %s fails (floating point evaluation)' % (label, ctx, c))
                                if not bad:
                                    rep.drift('weights off the 1/Q lattice', '%s %s' % (label, ctx))
                                return
                            evs.append({'k': 'weights', 'forced': forced, 'simpson': cv == 'SIMPSON_ROMBERG', 'grid': gl[1:-1], 'wq': wq, '_label': label, '_sig': sig, '_w': list(map(float, w))})

                        for cv in ('ROMBERG_DEFAULT', 'SIMPSON_ROMBERG'):
                            for fo in (False, True):
                                if fo and not pts:
                                    continue

                                def fresh(cv=cv, fo=fo):
                                    eg = ExtrapolationGrid(getattr(SliceGrouping, gname), getattr(SliceVersion, sname), getattr(SliceContainerVersion, cv), force_balanced_refinement_tree=fo)
                                    eg.set_grid(list(grid), list(levels))
                                    return eg.grid, eg.get_weights()

                                def reused(cv=cv, fo=fo):
                                    # the re-used object is also asked to integrate (the read-out users call): the weights it integrates with
                                    # must be the weights of the CURRENT grid, whatever the object was used for before
                                    eg = reuse[(cv, fo)]
                                    eg.set_grid(list(grid), list(levels))
                                    i1 = float(eg.integrate(POLY_ONE))
                                    ix = float(eg.integrate(POLY_X))
                                    used = [float(x) for x in eg.weights]
                                    w = eg.get_weights()
                                    gg = [float(x) for x in eg.grid]
                                    sc = max(abs(a), abs(b), 1.0) * (b - a)
                                    ok = (len(used) == len(w) and max(abs(u - float(v)) for u, v in zip(used, w)) <= 1e-11 * (b - a)
                                          and abs(i1 - float(np.sum(w))) <= 1e-11 * (b - a) and abs(ix - float(np.dot(w, gg))) <= 1e-11 * sc)
                                    if not ok:
                                        rep.violation('C11_IntegrateUsesCurrentWeights', {'api': 'ExtrapolationGrid', 'container': cv, 'forced': fo},
                                                      dict(ctx, call='reused object: set_grid, integrate(1), integrate(x), get_weights', integral_one=i1, integral_x=ix,
                                                           weights_used=used, weights=list(map(float, w))),
                                                      what='re-used ExtrapolationGrid on %s: integrate(1)=%r integrate(x)=%r do not agree with the weights of the current grid (sum %r)' % (ctx, i1, ix, float(np.sum(w))))
                                    return eg.grid, w
                                def caller_lists(cv=cv, fo=fo):
                                    # the caller keeps ONE pair of list objects, rewrites them in place for every grid and hands the same objects
                                    # over again (what the adaptive strategies do with their per-dimension arrays): the weights must be those of the
                                    # lists' current content
                                    eg, cg, cl = aliased[(cv, fo)]
                                    cg[:] = list(grid)
                                    cl[:] = list(levels)
                                    eg.set_grid(cg, cl)
                                    return list(eg.grid), eg.get_weights()
                                weights_event('ExtrapolationGrid:fresh', fo, cv, fresh)
                                weights_event('ExtrapolationGrid:reused', fo, cv, reused)
                                weights_event('ExtrapolationGrid:caller-lists', fo, cv, caller_lists)
                        for dc in (True, False):
                            def viaglobal(dc=dc):
                                gr = glob[dc]
                                gr.initialize_grid()
                                w1 = gr.compute_1D_quad_weights(list(grid), a, b, 0, grid_levels_1D=list(levels))
                                w2 = gr.compute_1D_quad_weights(list(grid), a, b, 0, grid_levels_1D=list(levels))
                                if list(w1) != list(w2):
                                    raise AssertionError('second call returned different weights')
                                return grid, w2
                            weights_event('GlobalRombergGrid:cache=%s' % dc, False, 'ROMBERG_DEFAULT', viaglobal)
                        # balanced extrapolation (full, non-empty trees)
                        st = g.states[sid]
                        if st['wb'] != () and gk == 'UNIT' and sk == 'ROMBERG':
                            m = max(levels)
                            for label, fn in (('BalancedExtrapolationGrid', lambda: bal(BalancedExtrapolationGrid, grid, levels)),
                                              ('GlobalBalancedRombergGrid', lambda: GlobalBalancedRombergGrid([a], [b]).compute_1D_quad_weights(list(grid), a, b, 0, grid_levels_1D=list(levels)))):
                                try:
                                    with impl.quiet(), impl.watchdog(60):
                                        w = fn()
                                except impl.Timeout:
                                    raise
                                except Exception as ex:
                                    rep.violation('C11_NoException', {'api': label, 'exception': type(ex).__name__}, dict(ctx, call=label, exception=repr(ex)), what='%s on %s raised %r' % (label, ctx, ex))
                                    continue
                                wq = snap(w, N * P(m - 1) / (b - a)) if len(w) == len(grid) else None
                                if wq is None:
                                    x = (np.asarray(grid) - (a + b) / 2) / (b - a)
                                    ww = np.asarray(w, dtype=float) / (b - a)
                                    if len(w) != len(grid) or abs(ww.sum() - 1) > 1e-10 or abs((ww * x).sum()) > 1e-10:
                                        rep.violation('C11_BalancedSum', {'api': label}, dict(ctx, call=label, weights=list(map(float, w))), what='%s on %s: weights %s' % (label, ctx, list(w)))
                                    else:
                                        rep.drift('balanced weights off the lattice', '%s %s' % (label, ctx))
                                    continue
                                evs.append({'k': 'balanced', 'wq': wq, '_label': label, '_sig': {'api': label}, '_w': list(map(float, w))})
                        # forced full tree
                        if pts and (M, tuple(pts), (a, b)) not in seen_force:
                            seen_force.add((M, tuple(pts), (a, b)))
                            try:
                                with impl.quiet(), impl.watchdog(60):
                                    t = GridBinaryTree()
                                    t.init_tree(list(grid), list(levels))
                                    g0, l0 = list(t.get_grid()), list(t.get_grid_levels())
                                    t.force_full_tree_invariant()
                                    g1, l1 = list(t.get_grid()), list(t.get_grid_levels())
                                if g0 != list(grid) or l0 != list(levels):
                                    rep.violation('C11_TreeRoundTrip', {'api': 'GridBinaryTree'}, dict(ctx, got=[g0, l0]), what='init_tree/get_grid does not return the given grid for %s' % ctx)
                                gl = lattice(g1)
                                if gl is None or len(l1) != len(g1):
                                    rep.violation('C11_ForceOnlyTreePoints', {'api': 'GridBinaryTree'}, dict(ctx, out=g1, levels=l1), what='forced tree of %s has non-dyadic points %s' % (ctx, g1))
                                else:
                                    evs.append({'k': 'force', 'out': gl[1:-1], 'levels': [int(v) for v in l1[1:-1]], '_label': 'GridBinaryTree', '_sig': {'api': 'GridBinaryTree'}})
                            except impl.Timeout:
                                raise
                            except Exception as ex:
                                rep.violation('C11_NoException', {'api': 'GridBinaryTree', 'exception': type(ex).__name__}, dict(ctx, exception=repr(ex)), what='GridBinaryTree on %s raised %r' % (ctx, ex))
                        if evs:
                            traces.append({'pts': pts, 'events': evs, '_ctx': ctx})
                            rep.count(len(evs), key=json.dumps([M, gk, sk, pts, a, b]))
                rep.sample({'M': M, 'grouping': gname, 'slice_version': sname, 'trees': len(order), 'intervals': intervals if M == 3 or tier == 'thorough' else 'one of %s per tree' % (intervals,)}, limit=12)
                clean = [{'pts': t['pts'], 'events': [{k: v for k, v in e.items() if not k.startswith('_')} for e in t['events']]} for t in traces]
                verdicts, stt, trn = tlc.validate_traces('RombergTrace', clean, 'c11', constants=consts, chunk=700, unevaluable='C11_SpecEvaluable')
                rep.cov['states'] += stt
                rep.cov['transitions'] += trn
                rep.cov['traces_validated_against_impl'] += len(traces)
                for tr, v in zip(traces, verdicts):
                    for step, clause in v:
                        e = tr['events'][step - 1]
                        info = dict(tr['_ctx'], call=e['_label'], event={k: v2 for k, v2 in e.items() if not k.startswith('_')}, weights=e.get('_w'))
                        if clause.startswith('I_'):
                            rep.drift(clause, '%s on %s' % (e['_label'], tr['_ctx']))
                        else:
                            rep.violation(clause, e['_sig'], info, what='%s on %s: %s' % (e['_label'], tr['_ctx'], clause))
    rep.cov['rule'] = 'one evaluation per recorded library call; distinct by (M, grouping, slice version, tree, interval)'
    rep.assumptions += ['TLC/SANY', 'weights snapped to the 1/Q lattice (absolute tolerance 2e-3 units of 1/Q, i.e. < 1e-11 of the interval length)',
                        'trees of depth <= 4; polynomial exactness in TLC for depth <= 3 (32-bit integers)']
    return rep.finish()


def parents(pts, M):
    N = 2 ** M
    out = []
    for p in pts:
        l = lev(p, M)
        if l > 1:
            h = N // 2 ** l
            out.append((p, p - h if lev(p - h, M) == l - 1 else p + h))
    return out


def bal(cls, grid, levels):
    b = cls()
    b.set_grid(list(grid), list(levels))
    return b.get_weights()


def replay(path, seed):
    print('re-run bin/check C11: the failing case is recorded in %s' % path)
    return run('quick', seed)
