"""C13 - the adaptive driver honours its stopping rules and reports truthful numbers.

spec/Driver.tla is model-checked (all limit triples of a small grid x all abstract error/point sequences); real runs of
the dimension-wise, extend-split and cell strategies over a limit grid derived from a probe run are recorded
(evaluate / refine / return events with the reported numbers and independently measured ones) and validated by TLC
against spec/DriverTrace.tla."""
import json
import random

import numpy as np

from harness.engine import impl, tlc
from harness.engine.report import Report
from harness.drivers import driver_pipeline as DP

PROP = 'C13'
MC_CFG = '''SPECIFICATION Spec
CONSTANTS MAXK = %d
 MAXAREAS = %d
 STYLE = "%s"
 SUBTRACT_OLD = %s
 ALLOW_RESUME = %s
 LIMITS <- Lims
 SINGLE_STEP = %s
 RECALC = %d
INVARIANT I_SingleStepStops
INVARIANT C13_StopOnlyWhenDue
INVARIANT C13_RefineOnlyWhenNotDue
INVARIANT C13_PointsMonotone
PROPERTY C13_NoRefineAfterStop
PROPERTY C14_ResumeKeepsState
CHECK_DEADLOCK FALSE
'''


def mc_cfg(k, a, style, sub, res, single='FALSE', recalc=0):
    return MC_CFG % (k, a, style, sub, res, single, recalc)


def model_check(rep, tier, extra_inv=()):
    # (MAXK, MAXAREAS, STYLE, SUBTRACT_OLD, ALLOW_RESUME, SINGLE_STEP, RECALC)
    runs = [(4, 6, 'WholeGrid', 'FALSE', 'TRUE', 'FALSE', 0), (4, 6, 'NewAreasOnly', 'TRUE', 'TRUE', 'FALSE', 0),
            (4, 6, 'WholeGrid', 'FALSE', 'TRUE', 'TRUE', 0), (4, 6, 'NewAreasOnly', 'TRUE', 'TRUE', 'TRUE', 1)]
    if tier == 'thorough':
        runs += [(5, 8, 'WholeGrid', 'FALSE', 'TRUE', 'FALSE', 0), (5, 8, 'NewAreasOnly', 'TRUE', 'TRUE', 'FALSE', 2), (5, 8, 'NewAreasOnly', 'TRUE', 'TRUE', 'TRUE', 1)]
    for k, a, style, sub, res, single, recalc in runs:
        cfg = mc_cfg(k, a, style, sub, res, single, recalc) + ''.join('INVARIANT %s\n' % i for i in extra_inv)
        r, _ = tlc.run('MC_Driver', cfg, PROP.lower(), timeout=1500)
        rep.tlc('Driver MAXK=%d MAXAREAS=%d %s subtract_old=%s resume=%s single_step=%s recalc=%d' % (k, a, style, sub, res, single, recalc), r)
        if r.violated:
            raise tlc.TLCError('Driver.tla violates %s (model-level)' % r.violated)
        for act in ('Evaluate', 'DecideStop', 'DecideRefine'):
            if r.action_counts.get(act, (0, 0))[1] == 0:
                raise tlc.TLCError('vacuous: action %s never taken' % act)


def configs(tier):
    L = []
    for st, D, lmin, lmax in [('dimwise', 2, 1, 2), ('extendsplit', 2, 1, 2), ('cell', 2, 2, 2)]:
        for func in ['cornerpeak', 'vector']:
            for norm in ([np.inf, 2] if tier == 'quick' else [np.inf, 1, 2]):
                L.append(dict(strategy=st, D=D, lmin=lmin, lmax=lmax, func=func, norm=norm))
    if tier == 'thorough':
        L += [dict(strategy='dimwise', D=3, lmin=1, lmax=2, func='cornerpeak', norm=np.inf),
              dict(strategy='extendsplit', D=3, lmin=1, lmax=2, func='vector', norm=2),
              dict(strategy='dimwise', D=2, lmin=1, lmax=3, func='product', norm=np.inf, rebalancing=False, boundary=False),
              dict(strategy='extendsplit', D=2, lmin=1, lmax=3, func='product', norm=1, version=1),
              dict(strategy='dimwise', D=2, lmin=1, lmax=2, func='cornerpeak', norm=np.inf, zero_ref=True)]
    else:
        L.append(dict(strategy='dimwise', D=2, lmin=1, lmax=2, func='cornerpeak', norm=np.inf, zero_ref=True))
    # the other error calculators shipped for these strategies
    L.append(dict(strategy='cell', D=2, lmin=2, lmax=2, func='cornerpeak', norm=np.inf, ec='ErrorCalculatorSurplusCellPunishDepth'))
    L.append(dict(strategy='dimwise', D=2, lmin=1, lmax=2, func='cornerpeak', norm=2, ec='ErrorCalculatorSingleDimVolumeGuidedPunishedDepth'))
    L.append(dict(strategy='dimwise', D=2, lmin=1, lmax=2, func='tiny', norm=np.inf))
    L.append(dict(strategy='extendsplit', D=2, lmin=1, lmax=2, func='tiny', norm=2))
    L.append(dict(strategy='extendsplit', D=2, lmin=1, lmax=2, func='huge', norm=np.inf))
    # the single_step option (stop at the first evaluation that shows two more points than before the last refinement) and periodic recalculation
    L.append(dict(strategy='dimwise', D=2, lmin=1, lmax=2, func='cornerpeak', norm=np.inf, single_step=True))
    L.append(dict(strategy='extendsplit', D=2, lmin=1, lmax=2, func='vector', norm=2, single_step=True))
    L.append(dict(strategy='cell', D=2, lmin=2, lmax=2, func='cornerpeak', norm=np.inf, single_step=True))
    L.append(dict(strategy='extendsplit', D=2, lmin=1, lmax=2, func='cornerpeak', norm=np.inf, recalc=2))
    L.append(dict(strategy='dimwise', D=2, lmin=1, lmax=2, func='product', norm=2, recalc=1, single_step=True))
    # the integrand's value cache switched off before the run (deactivate_caching): the strategies that evaluate in batches still count their points
    # (the cell strategy evaluates point by point; with the cache off its point count stays 0 and the run never stops - a recorded finding)
    L.append(dict(strategy='dimwise', D=2, lmin=1, lmax=2, func='cornerpeak', norm=np.inf, nocache=True))
    L.append(dict(strategy='extendsplit', D=2, lmin=1, lmax=2, func='vector', norm=2, nocache=True, timeout=120))
    L.append(dict(strategy='cell', D=2, lmin=2, lmax=2, func='cornerpeak', norm=np.inf, nocache=True, timeout=25))      # recorded finding: never stops
    # the library's own check of the final scheme switched on (test_scheme): it must not trip on any run
    L.append(dict(strategy='dimwise', D=2, lmin=1, lmax=2, func='vector', norm=np.inf, test_scheme=True))
    L.append(dict(strategy='extendsplit', D=2, lmin=1, lmax=2, func='cornerpeak', norm=2, test_scheme=True))
    return L


def run(tier, seed):
    rep = Report(PROP, tier, seed, 'model_checking')
    rng = random.Random(seed)
    model_check(rep, tier)
    traces = []
    nprobe = 5 if tier == 'quick' else 7
    nlims = 14 if tier == 'quick' else 40
    for c in configs(tier):
        name = '%s D=%d (%d,%d) %s norm=%s%s%s%s%s' % (c['strategy'], c['D'], c['lmin'], c['lmax'], c['func'], c['norm'], ' zero-ref' if c.get('zero_ref') else '', ' ' + c['ec'] if c.get('ec') else '',
                                                 ' single_step' if c.get('single_step') else '', (' recalc=%d' % c['recalc'] if c.get('recalc') else '') + (' test_scheme' if c.get('test_scheme') else '') + (' cache-off' if c.get('nocache') else ''))
        try:
            # probe: never stop by error, stop after nprobe evaluations (via a growing maximum)
            probe_events = None
            mx = 0
            for _ in range(nprobe):
                S, rec, ret = DP.run_once({k: v for k, v in c.items() if k != 'single_step'}, {'tol': -1.0, 'min': 1, 'max': mx}, checks=False)
                probe_events = rec.events
                nps = [e['np'] for e in probe_events if e['k'] == 'E']
                mx = nps[-1]
            lims_list = DP.limit_grid(probe_events, rng, nlims)
        except impl.Timeout:
            # the probe runs carry a finite point budget: a run that is still going after the watchdog time (two orders of magnitude above its usual
            # duration) has not stopped although the maximum was exceeded long ago
            rep.violation('C13_StopsWhenMaximumExceeded', {'strategy': c['strategy'], 'probe': True, 'timeout': True, 'cache_off': bool(c.get('nocache'))},
                          {'config': {k: (v if not isinstance(v, float) or v != np.inf else 'inf') for k, v in c.items()}, 'budget': mx, 'watchdog_s': c.get('timeout', 240)},
                          what='%s: the run with point budget %s did not stop within %d s' % (name, mx, c.get('timeout', 240)))
            continue
        except Exception as ex:
            rep.violation('C13_NoException', {'strategy': c['strategy'], 'exception': type(ex).__name__, 'error_calculator': c.get('ec', 'default'), 'probe': True},
                          {'config': str(c), 'exception': repr(ex)}, what='%s: an adaptive run raised %r' % (name, ex))
            continue
        for lims in lims_list:
            try:
                evp = None
                if rng.random() < 0.25 and c['strategy'] != 'cell':
                    evp = [tuple(rng.random() for _ in range(c['D'])) for _ in range(3)]
                S, rec, ret = DP.run_once(c, lims, checks=False, evaluation_points=evp)
            except impl.Timeout:
                rep.exclude('%s limits %s: timeout' % (name, lims))
                continue
            except Exception as ex:
                rep.violation('C13_NoException', {'strategy': c['strategy'], 'exception': type(ex).__name__},
                              {'config': str(c), 'limits': lims, 'exception': repr(ex)}, what='%s with limits %s raised %r' % (name, lims, ex))
                continue
            events = rec.events + [DP.ret_event(S, rec, ret, c, lims, with_c05=False)]
            tr = DP.to_trace(c, lims, events, name)
            traces.append(tr)
            rep.count(1, key=(name, json.dumps(lims)), nontrivial=len(events) > 2)
            # the same driver object used for a further run (the cell strategy does not terminate when re-used: not driven)
            if c['strategy'] != 'cell' and evp is None and rng.random() < 0.35:
                lims2 = rng.choice(lims_list)
                try:
                    ret2 = DP.run_again(S, rec, c, lims2)
                except impl.Timeout:
                    rep.exclude('%s second run with limits %s: timeout' % (name, lims2))
                    continue
                except Exception as ex:
                    rep.violation('C13_NoException', {'strategy': c['strategy'], 'exception': type(ex).__name__, 'second_run': True},
                                  {'config': str(c), 'limits': [lims, lims2], 'exception': repr(ex)}, what='%s second run on the same object with limits %s raised %r' % (name, lims2, ex))
                    continue
                events2 = rec.events + [DP.ret_event(S, rec, ret2, c, lims2, with_c05=False)]
                traces.append(DP.to_trace(c, lims2, events2, name + ' (second run on the same driver object, first limits %s)' % lims))
                rep.count(1, key=(name, 'second', json.dumps(lims), json.dumps(lims2)), nontrivial=len(events2) > 2)
            # the stopped run is continued with other limits (continue_adaptive_refinement, or a new call that is handed the run's own refinement):
            # the stopping rules hold for the continuation as well, with the limits of the continuation
            # (the cell strategy is only continued through continue_adaptive_refinement: it does not terminate when a new call re-initialises it)
            if evp is None and rng.random() < 0.5:
                lims3 = dict(rng.choice(lims_list))
                if lims3['max'] is None or lims3['max'] > max(nps):
                    lims3['max'] = int(max(nps))      # a continuation always carries a finite point budget (termination)
                via = rng.choice(['resume', 'resume', 'container']) if c['strategy'] == 'dimwise' else 'resume'
                try:
                    n1 = len(rec.events)
                    rec.tol = lims3['tol']
                    rec.skip_np = True      # (the point count of a continuation restarts from the current grid: the independent count since object creation is not comparable)
                    with impl.quiet(), impl.watchdog(c.get('timeout', 240)):
                        if via == 'resume':
                            ret3 = S['combi'].continue_adaptive_refinement(tol=lims3['tol'], max_evaluations=lims3['max'], min_evaluations=lims3['min'])
                        else:
                            ret3 = S['combi'].performSpatiallyAdaptiv(c['lmin'], c['lmax'], S['ec'], tol=lims3['tol'], max_evaluations=lims3['max'], min_evaluations=lims3['min'],
                                                                     print_output=False, refinement_container=S['combi'].refinement, **DP.option_kw(S, c))
                    ev3 = DP.ret_event(S, rec, ret3, c, lims3, with_c05=False)
                    if via == 'resume':
                        ev3['lens'] = []      # the history arrays of a resumed run keep the entries of the first part: their length is not one per evaluation of this part
                    # the continuation is judged as a run of its own that starts from the refinement reached so far (its first evaluation re-evaluates
                    # the current grid; the reported point count restarts from that grid, so it is not compared with the counts of the first part)
                    events3 = rec.events[n1:] + [ev3]
                    # single_step: continue_adaptive_refinement carries the bookkeeping of the first part along, a new call starts afresh
                    tr3 = DP.to_trace(c, lims3, events3, name + ' (continuation via %s of a run stopped by limits %s, limits %s)' % (via, lims, lims3),
                                      last0=DP.last_count(rec.events[:n1]) if (via == 'resume' and c.get('single_step')) else -1)
                    tr3['_sig'] = {'continued': True, 'via': via}
                    traces.append(tr3)
                    rep.count(1, key=(name, 'continued', via, json.dumps(lims), json.dumps(lims3)), nontrivial=len(events3) > len(events) + 2)
                except impl.Timeout:
                    rep.exclude('%s continuation with limits %s: timeout' % (name, lims3))
                except Exception as ex:
                    rep.violation('C13_NoException', {'strategy': c['strategy'], 'exception': type(ex).__name__, 'continued': True, 'via': via},
                                  {'config': str(c), 'limits': [lims, lims3], 'exception': repr(ex)}, what='%s continued via %s with limits %s raised %r' % (name, via, lims3, ex))
            rep.sample({'config': name, 'limits': lims, 'events': [{k: v for k, v in e.items() if k in ('k', 'eok', 'np', 'lens')} for e in events][:8]}, limit=4)
    # extension beyond the listed properties: the refinement container as a data type (spec/RefContainer.tla), drift reports only
    try:
        from harness.drivers import refcontainer_extra
        refcontainer_extra.run(rep, tier)
    except Exception as ex:      # the extension never decides the listed property
        rep.exclude('extension RefContainer.tla not evaluated: %r' % (ex,))
    return conclude(rep, traces, ('C13_',))


def conclude(rep, traces, prefixes):
    clean = [{k: v for k, v in t.items() if not k.startswith('_')} for t in traces]
    verdicts, st, trn = tlc.validate_traces('DriverTrace', clean, rep.pid.lower())
    rep.cov['states'] += st
    rep.cov['transitions'] += trn
    rep.cov['traces_validated_against_impl'] += len(traces)
    for tr, v in zip(traces, verdicts):
        for step, clause in v:
            if clause.startswith(prefixes):
                c = tr['_c']
                ev = tr['_events'][step - 1]
                sig = {'strategy': c['strategy'], 'event': ev['k']}
                sig.update(tr.get('_sig', {}))
                rep.violation(clause, sig, {'config': c, 'limits': tr['_lims'], 'failing_event': step, 'events': tr['_events']},
                              what='%s limits=%s event %d (%s)' % (tr['origin'], tr['_lims'], step, {k: v for k, v in ev.items() if k.startswith('_') or k in ('np', 'eok')}))
    rep.cov['rule'] = ('one recorded run per (strategy, integrand, norm, limit triple); limit triples derived from a probe run so that each stop '
                       'reason fires at each evaluation index (incl. limits met at the first evaluation, min > max); distinct by (config, limits); '
                       'non-trivial = at least one refinement happened')
    rep.assumptions += ['TLC/SANY', 'events recorded by wrapping evaluate_operation/refine of the strategy instance in the harness',
                        'independent point count: distinct coordinates reaching eval/eval_vectorized of the integrand']
    return rep.finish()


def replay(path, seed):
    rep = Report(PROP, 'quick', seed, 'model_checking')
    with open(path) as f:
        r = json.load(f)['replay']
    c = r['config']
    if c.get('norm') == 'inf':
        c['norm'] = np.inf
    if 'budget' in r:
        # a budgeted run that did not stop: run it again under the same watchdog
        rep.count(1, key='a')
        rep.count(1, key='b')
        try:
            DP.run_once({k: v for k, v in c.items() if k != 'single_step'}, {'tol': -1.0, 'min': 1, 'max': r['budget']}, checks=False)
        except impl.Timeout:
            rep.violation('C13_StopsWhenMaximumExceeded', {'strategy': c['strategy'], 'probe': True, 'timeout': True}, r, what='replay: the run with point budget %s did not stop' % r['budget'])
        return rep.finish()
    lims = r['limits']
    S, rec, ret = DP.run_once(c, lims, checks=False)
    events = rec.events + [DP.ret_event(S, rec, ret, c, lims, with_c05=False)]
    rep.count(1, key='a')
    rep.count(1, key='b')
    rep.sample({'replayed': path})
    return conclude(rep, [DP.to_trace(c, lims, events, 'replay')], ('C13_',))
