"""C01 - adaptive combination scheme is a valid inclusion-exclusion scheme.

1. TLC model-checks spec/CombiScheme.tla exhaustively for small (D, LMIN, LMAX, CAP) and dumps the graph.
2. Every edge of the graph is replayed on a real sparseSpACE CombiScheme (I-spec vs code -> DRIFT).
3. Every implementation execution (edge replays, random request sequences, update sequences issued by
   real adaptive runs) is logged and validated by TLC against spec/CombiSchemeTrace.tla, which evaluates
   every property clause on every recorded state.
"""
import copy
import json
import random

from harness.engine import impl, tlc
from harness.engine.report import Report

PROP = 'C01'
INVS = ['P_DownClosed', 'P_AboveMin', 'P_Disjoint', 'P_NoActiveFwd', 'P_SchemeInside', 'P_SchemeFunctional',
        'P_InclExcl', 'P_SumOne', 'P_InitClosedForm', 'I_OldClosed']


def mc_cfg(D, lmin, lmax, cap):
    return ('SPECIFICATION Spec\nCONSTANTS D = %d\n LMIN = %d\n LMAX = %d\n CAP = %d\nCONSTRAINT InBox\n' % (D, lmin, lmax, cap)
            + ''.join('INVARIANT %s\n' % i for i in INVS) + 'PROPERTY P_Grows\n')


# ------------------------------------------------------------------ projection of the implementation
def _vec(v):
    return [int(x) for x in v]


def _coef(c):
    f = float(c)
    if f != int(f):
        raise ValueError('non-integer coefficient %r' % (c,))
    return int(f)


def project(cs):
    with impl.quiet():
        sch = cs.getCombiScheme(do_print=False)
    return {'active': sorted(_vec(v) for v in cs.active_index_set),
            'old': sorted(_vec(v) for v in cs.old_index_set),
            'scheme': sorted([_vec(g.levelvector), _coef(g.coefficient)] for g in sch)}


def new_scheme(D, lmin, lmax):
    from sparseSpACE.combiScheme import CombiScheme
    cs = CombiScheme(D)
    cs.init_adaptive_combi_scheme(lmax, lmin)
    return cs


def closed_form(D, lmin, lmax):
    from sparseSpACE.combiScheme import CombiScheme
    with impl.quiet():
        sch = CombiScheme(D).getCombiScheme(lmin, lmax, do_print=False)
    return sorted([_vec(g.levelvector), _coef(g.coefficient)] for g in sch)


def queries(cs, v):
    """answers of the query methods is_refinable / has_forward_neighbour in the current state, for the request vector, its neighbours and
    two members of the sets (I_Queries of the trace specification)"""
    probes = []
    if len(v):
        probes.append(list(v))
        for d in range(len(v)):
            for s in (-1, 1):
                w = list(v)
                w[d] += s
                if w[d] >= 0:
                    probes.append(w)
    for S in (cs.active_index_set, cs.old_index_set):
        probes += [list(x) for x in sorted(S)[:2]]
    out = []
    for w in probes[:8]:
        w = [int(x) for x in w]
        out.append([w, bool(cs.is_refinable(w)), bool(cs.has_forward_neighbour(w))])
    return out


def request(cs, v):
    """one update request; returns the event for the trace"""
    before = project(cs)
    ret = cs.update_adaptive_combi(list(v))
    after = project(cs)
    ev = {'v': list(v), 'none': ret is None, 'dims': sorted(int(d) for d in ret) if ret is not None else [], 'q': queries(cs, v)}
    if after == before:
        ev['same'] = True
    else:
        ev['same'] = False
        ev.update(after)
    return ev, after


def first_event(cs):
    ev = {'v': [], 'none': True, 'dims': [], 'same': False, 'q': queries(cs, [])}
    ev.update(project(cs))
    return ev


# ------------------------------------------------------------------ spec -> code: exhaustive edge replay
def state_key(st):
    return (tuple(sorted(tuple(v) for v in st['active'])), tuple(sorted(tuple(v) for v in st['old'])),
            tuple(sorted((tuple(p[0]), p[1]) for p in st['scheme'])))


def edge_replay(rep, g, D, lmin, lmax, traces, cfgname):
    objs = {}
    init = g.init[0]
    cs0 = new_scheme(D, lmin, lmax)
    p0 = project(cs0)
    if state_key(p0) != state_key(g.states[init]):
        rep.drift('%s: initial state differs from the specification' % cfgname, {'impl': p0})
    objs[init] = cs0
    out = {}
    for s, t, lab in g.edges:
        out.setdefault(s, []).append((t, lab))
    order, seen = [init], {init}
    i = 0
    mism = 0
    nedges = 0
    while i < len(order):
        s = order[i]
        i += 1
        if s not in objs:
            continue
        noop = copy.deepcopy(objs[s])
        tr_noop = {'d': D, 'lmin': lmin, 'lmax': lmax, 'fresh': s == init, 'closed': closed_form(D, lmin, lmax) if s == init else [],
                   'events': [first_event(noop)], 'origin': 'edge-replay %s' % cfgname}
        for t, lab in out.get(s, []):
            nedges += 1
            name, args = tlc.parse_action(lab)
            v = list(args[0])
            tgt = g.states[t]
            is_real = tuple(v) in {tuple(x) for x in g.states[s]['active']}
            if is_real:
                cs = copy.deepcopy(objs[s])
                tr = {'d': D, 'lmin': lmin, 'lmax': lmax, 'fresh': False, 'closed': [], 'events': [first_event(cs)],
                      'origin': 'edge-replay %s' % cfgname}
                ev, after = request(cs, v)
                tr['events'].append(ev)
                traces.append(tr)
            else:
                cs = noop
                ev, after = request(cs, v)
                tr_noop['events'].append(ev)
            ok = (state_key(after) == state_key(tgt) and ev['none'] == tgt['ret']['none']
                  and set(ev['dims']) == {d - 1 for d in tgt['ret']['dims']})
            if not ok:
                mism += 1
                if mism <= 3:
                    rep.drift('%s: edge %s from %s: implementation state differs from specification' % (cfgname, lab, sorted(g.states[s]['active'])),
                              {'impl': after, 'ret': ev['dims'], 'spec_ret': sorted(tgt['ret']['dims'])})
            elif t not in objs:
                objs[t] = copy.deepcopy(cs)
            if t not in seen:
                seen.add(t)
                order.append(t)
            rep.count(1, key=(cfgname, s, lab), nontrivial=is_real)
        if len(tr_noop['events']) > 1:
            traces.append(tr_noop)
    unreached = [s for s in g.states if s not in objs]
    return nedges, mism, len(unreached)


# ------------------------------------------------------------------ code -> spec: random request sequences
def random_trace(rng, D, lmin, lmax, steps, cap):
    cs = new_scheme(D, lmin, lmax)
    tr = {'d': D, 'lmin': lmin, 'lmax': lmax, 'fresh': True, 'closed': closed_form(D, lmin, lmax),
          'events': [first_event(cs)], 'origin': 'random'}
    reqs = []
    for _ in range(steps):
        r = rng.random()
        act = sorted(cs.active_index_set)
        act = [a for a in act if max(a) < cap] or act
        if r < 0.7 and act:
            v = list(rng.choice(act))
        elif r < 0.85 and cs.old_index_set:
            v = list(rng.choice(sorted(cs.old_index_set)))
        else:
            v = [rng.randint(max(lmin - 1, 0), cap) for _ in range(D)]
        ev, _ = request(cs, v)
        tr['events'].append(ev)
        reqs.append(v)
    return tr, reqs


def interleaved_traces(rng, n, steps):
    """several scheme objects of different (D, lmin, lmax) alive at the same time, requests interleaved: every object must behave
    as if it were alone (no state shared between objects)"""
    out = []
    for _ in range(n):
        k = rng.choice([2, 2, 3])
        objs = []
        for _i in range(k):
            D = rng.choice([1, 2, 2, 3])
            lmin = rng.randint(0, 2)
            lmax = lmin + rng.randint(0, 3 if D <= 2 else 2)
            cap = lmax + (5 if D <= 2 else 3)
            cs = new_scheme(D, lmin, lmax)
            objs.append((cs, D, lmin, lmax, cap))
        # first events are taken only after ALL objects exist (a later constructor must not disturb an earlier object)
        trs = [{'d': D, 'lmin': lmin, 'lmax': lmax, 'fresh': True, 'closed': closed_form(D, lmin, lmax), 'events': [first_event(cs)], 'origin': 'interleaved objects'}
               for cs, D, lmin, lmax, cap in objs]
        reqs = [[] for _ in objs]
        for _s in range(steps):
            i = rng.randrange(k)
            cs, D, lmin, lmax, cap = objs[i]
            act = sorted(cs.active_index_set)
            act = [a for a in act if max(a) < cap] or act
            r = rng.random()
            if r < 0.75 and act:
                v = list(rng.choice(act))
            elif r < 0.9 and cs.old_index_set:
                v = list(rng.choice(sorted(cs.old_index_set)))
            else:
                v = [rng.randint(max(lmin - 1, 0), cap) for _ in range(D)]
            ev, _ = request(cs, v)
            trs[i]['events'].append(ev)
            reqs[i].append(v)
        out += list(zip(trs, reqs))
    return out


def reinit_traces(rng, n, steps):
    """ONE scheme object initialised several times (same and different level pairs) with requests in between: every initialisation must
    give the standard scheme again, nothing of the earlier use may survive"""
    from sparseSpACE.combiScheme import CombiScheme
    out = []
    for _ in range(n):
        D = rng.choice([1, 2, 2, 3])
        cs = CombiScheme(D)
        pairs = []
        for _r in range(rng.choice([2, 3, 3])):
            lmin = rng.randint(0, 2)
            lmax = lmin + rng.randint(0, 3 if D <= 2 else 2)
            if pairs and rng.random() < 0.6:
                lmin, lmax = rng.choice(pairs)      # the same level pair again
            pairs.append((lmin, lmax))
            cap = lmax + (5 if D <= 2 else 3)
            cs.init_adaptive_combi_scheme(lmax, lmin)
            tr = {'d': D, 'lmin': lmin, 'lmax': lmax, 'fresh': True, 'closed': closed_form(D, lmin, lmax), 'events': [first_event(cs)],
                  'origin': 're-initialised object (initialisation %d, level pairs so far %s)' % (len(pairs), pairs)}
            reqs = []
            for _s in range(rng.randint(1, steps)):
                act = sorted(cs.active_index_set)
                act = [a for a in act if max(a) < cap] or act
                v = list(rng.choice(act)) if act and rng.random() < 0.85 else [rng.randint(max(lmin - 1, 0), cap) for _ in range(D)]
                ev, _ = request(cs, v)
                tr['events'].append(ev)
                reqs.append(v)
            out.append((tr, reqs))
    return out


def run(tier, seed):
    rep = Report(PROP, tier, seed, 'model_checking')
    rng = random.Random(seed)
    if tier == 'quick':
        configs = [(1, 0, 1, 4), (1, 1, 2, 5), (1, 2, 3, 6), (2, 0, 1, 4), (2, 1, 2, 5), (2, 2, 3, 5), (2, 1, 3, 5),
                   (3, 1, 2, 3), (3, 0, 1, 2), (4, 1, 2, 2)]
        nrand, steps = 300, 10
    else:
        configs = [(1, 0, 1, 5), (1, 1, 2, 6), (1, 2, 3, 7), (1, 0, 3, 7), (2, 0, 1, 4), (2, 1, 2, 6), (2, 2, 3, 6), (2, 1, 3, 6),
                   (2, 0, 2, 6), (2, 1, 4, 6), (3, 1, 2, 4), (3, 0, 1, 3), (3, 2, 3, 5), (3, 1, 3, 4), (4, 1, 2, 3), (4, 0, 1, 2),
                   (5, 1, 2, 2)]
        nrand, steps = 3000, 16
    traces = []
    for (D, lmin, lmax, cap) in configs:
        name = 'D=%d lmin=%d lmax=%d cap=%d' % (D, lmin, lmax, cap)
        r, g = tlc.run('CombiScheme', mc_cfg(D, lmin, lmax, cap), 'c01', dump=True)
        rep.tlc('CombiScheme ' + name, r)
        if r.violated:
            # a counterexample in the model alone is never a verdict about the code: report as machinery problem
            raise tlc.TLCError('specification CombiScheme violates %s for %s (model-level, needs investigation)' % (r.violated, name))
        if r.action_counts.get('Update', (0, 0))[1] == 0:
            raise tlc.TLCError('vacuous run: Update never taken for ' + name)
        nedges, mism, unreached = edge_replay(rep, g, D, lmin, lmax, traces, name)
        rep.cov['tlc_runs'][-1].update({'edges_replayed_on_impl': nedges, 'edge_mismatches': mism, 'states_not_reached_by_impl': unreached})
    # closed form for a larger table of (D, lmin, lmax): spec value vs code, via fresh traces without requests
    for D in range(1, 6):
        for lmin in range(0, 3):
            for lmax in range(lmin, lmin + (5 if D <= 3 else 3)):
                cs = new_scheme(D, lmin, lmax)
                traces.append({'d': D, 'lmin': lmin, 'lmax': lmax, 'fresh': True, 'closed': closed_form(D, lmin, lmax),
                               'events': [first_event(cs)], 'origin': 'closed-form table'})
                rep.count(1, key=('closed', D, lmin, lmax))
    for i in range(nrand):
        D = rng.choice([1, 2, 2, 3, 3, 4, 5])
        lmin = rng.randint(0, 2)
        lmax = lmin + rng.randint(0, 3 if D <= 3 else 2)
        cap = lmax + (6 if D <= 2 else 3 if D == 3 else 2)
        try:
            tr, reqs = random_trace(rng, D, lmin, lmax, steps if D <= 3 else steps // 2, cap)
        except Exception as ex:   # the implementation raised on a request sequence the property quantifies over
            rep.violation('P_NoException', {'d': D, 'lmin': lmin, 'lmax': lmax, 'origin': 'random', 'exception': type(ex).__name__},
                          {'d': D, 'lmin': lmin, 'lmax': lmax, 'exception': repr(ex)}, what='random request sequence raised %r' % ex)
            continue
        traces.append(tr)
        rep.count(1, key=('rand', D, lmin, lmax, tuple(map(tuple, reqs))))
        if i < 2:
            rep.sample({'kind': 'random request sequence', 'd': D, 'lmin': lmin, 'lmax': lmax, 'requests': reqs})
    try:
        for tr, reqs in interleaved_traces(rng, 40 if tier == 'quick' else 400, 12):
            traces.append(tr)
            rep.count(1, key=('interleaved', tr['d'], tr['lmin'], tr['lmax'], tuple(map(tuple, reqs))))
    except Exception as ex:
        rep.violation('P_NoException', {'origin': 'interleaved objects', 'exception': type(ex).__name__}, {'exception': repr(ex)}, what='interleaved scheme objects raised %r' % ex)
    try:
        for tr, reqs in reinit_traces(rng, 60 if tier == 'quick' else 600, 8):
            traces.append(tr)
            rep.count(1, key=('reinit', tr['d'], tr['lmin'], tr['lmax'], tr['origin'], tuple(map(tuple, reqs))))
    except Exception as ex:
        rep.violation('P_NoException', {'origin': 're-initialised object', 'exception': type(ex).__name__}, {'exception': repr(ex)}, what='re-initialised scheme object raised %r' % ex)
    traces += adaptive_run_traces(rep, tier)
    traces += fullgrid_traces(rep)
    inductive_step(rep, tier)
    return conclude(rep, traces)


def inductive_step(rep, tier):
    """Unbounded levels: Apalache shows that the structural clauses are an inductive invariant of the update rule for ANY pair of index
    sets of at most N vectors with arbitrary integer levels (spec/apalache/CombiInd<D>.tla); the base case is an INVARIANT of the TLC runs
    above.  A control mutant (every forward neighbour admitted) must be rejected, otherwise the run is vacuous."""
    from harness.engine import apalache
    if not apalache.available():
        rep.cov['apalache'] = 'apalache-mc not on PATH: inductive step skipped'
        return
    runs = []
    plan = [(1, 5, 300), (2, 6, 900)] + ([(3, 6, 3000)] if tier == 'thorough' else [])
    for D, N, to in plan:
        mod = 'CombiInd%d' % D
        sub = [(r'^N == \d+$', 'N == %d' % N)]
        for inv in ('IndInv', 'Implied'):
            r = apalache.check(mod, inv=inv, subst=sub, timeout=to, tag='c01apa')
            r['N'] = N
            runs.append(r)
            if r['outcome'] != 'NoError':
                raise tlc.TLCError('specification-level failure: %s of %s is not inductive (Apalache)' % (inv, mod))
    ctl = apalache.check('CombiInd2', subst=[(r'^N == \d+$', 'N == 5'), (r'^Admissible\(v, O\) == .*$', 'Admissible(v, O) == Dims')], timeout=600, tag='c01apa')
    ctl['control_mutant'] = 'every forward neighbour admitted'
    runs.append(ctl)
    if ctl['outcome'] != 'Error':
        raise tlc.TLCError('vacuous: Apalache accepts the control mutant of CombiInd2')
    rep.cov['apalache'] = runs
    rep.assumptions.append('Apalache 0.58 (inductive step of the structural clauses, index sets of <= N vectors, unbounded levels); '
                           'CombiInd<D>.Update is the tuple form of CombiScheme.Update')


def adaptive_run_traces(rep, tier):
    """update requests issued by real adaptive runs (DimAdaptiveCombi) recorded by wrapping the scheme object"""
    out = []
    try:
        import numpy as np
        from sparseSpACE.DimAdaptiveCombi import DimAdaptiveCombi
        from sparseSpACE.Function import GenzCornerPeak
        from sparseSpACE.GridOperation import Integration
        from sparseSpACE.Grid import TrapezoidalGrid
    except Exception as ex:  # pragma: no cover
        rep.exclude('DimAdaptiveCombi import failed: %r' % ex)
        return out
    for D, lmin, lmax, tol in ([(2, 1, 2, 1e-3), (3, 1, 2, 1e-2)] if tier == 'quick' else [(2, 1, 2, 1e-5), (3, 1, 2, 1e-3), (2, 1, 3, 1e-4), (4, 1, 2, 1e-2)]):
        try:
            a, b = np.zeros(D), np.ones(D)
            f = GenzCornerPeak(coeffs=np.arange(1, D + 1, dtype=float))
            grid = TrapezoidalGrid(a=a, b=b, boundary=True)
            op = Integration(f=f, grid=grid, dim=D, reference_solution=f.getAnalyticSolutionIntegral(a, b))
            combi = DimAdaptiveCombi(a, b, operation=op)
            tr = {'d': D, 'lmin': lmin, 'lmax': lmax, 'fresh': True, 'closed': closed_form(D, lmin, lmax), 'events': [],
                  'origin': 'DimAdaptiveCombi.perform_combi'}
            from sparseSpACE.combiScheme import CombiScheme
            orig_init, orig_upd = CombiScheme.init_adaptive_combi_scheme, CombiScheme.update_adaptive_combi

            def init(self, lmax_, lmin_, _tr=tr):
                orig_init(self, lmax_, lmin_)
                _tr['events'].append(first_event(self))

            def upd(self, lv, _tr=tr):
                before = project(self)
                ret = orig_upd(self, lv)
                after = project(self)
                ev = {'v': _vec(lv), 'none': ret is None, 'dims': sorted(int(d) for d in ret) if ret is not None else [], 'same': after == before}
                if not ev['same']:
                    ev.update(after)
                _tr['events'].append(ev)
                return ret
            CombiScheme.init_adaptive_combi_scheme, CombiScheme.update_adaptive_combi = init, upd
            try:
                with impl.quiet(), impl.watchdog(120):
                    combi.perform_combi(lmin, lmax, tol)
            finally:
                CombiScheme.init_adaptive_combi_scheme, CombiScheme.update_adaptive_combi = orig_init, orig_upd
            if tr['events']:
                out.append(tr)
                rep.count(1, key=('dimadaptive', D, lmin, lmax, len(tr['events'])))
                rep.sample({'kind': 'DimAdaptiveCombi run', 'd': D, 'requests': [e['v'] for e in tr['events'][1:]][:12]})
        except impl.Timeout:
            rep.exclude('DimAdaptiveCombi D=%d timed out' % D)
        except Exception as ex:
            rep.exclude('DimAdaptiveCombi D=%d raised %r' % (D, ex))
    return out


def fullgrid_traces(rep):
    """init_full_grid (the scheme used for plotting the full grid space): the whole level box is old, nothing is active, the scheme is the
    single full grid; requests on it change nothing"""
    from sparseSpACE.combiScheme import CombiScheme
    out = []
    for D in (1, 2):      # (for D >= 3 the union of diagonals the library builds is not the level box - plotting helper, not driven)
        for lmin in (0, 1, 2):
            for lmax in range(lmin, lmin + 4):
                cs = CombiScheme(D)
                cs.init_full_grid(lmax, lmin)
                evs = [first_event(cs)]
                for v in ([lmax] * D, [lmin] * D, [lmax + 1] * D):
                    evs.append(request(cs, v)[0])
                out.append({'d': D, 'lmin': lmin, 'lmax': lmax, 'fresh': False, 'full': True, 'closed': [], 'events': evs, 'origin': 'full-grid'})
                rep.count(1, key=('fullgrid', D, lmin, lmax))
    return out


def conclude(rep, traces):
    for t in traces:
        t.setdefault('full', False)
        for e in t['events']:
            e.setdefault('q', [])
    verdicts, st, trn = tlc.validate_traces('CombiSchemeTrace', traces, 'c01', unevaluable='P_SpecEvaluable')
    rep.cov['states'] += st
    rep.cov['transitions'] += trn
    rep.cov['traces_validated_against_impl'] += len(traces)
    rep.cov['trace_events'] = sum(len(t['events']) for t in traces)
    drift_clauses = {}
    for tr, v in zip(traces, verdicts):
        for step, clause in v:
            if clause.startswith('P_') and tr.get('full'):
                # init_full_grid is documented as violating the index-set properties (plotting only): never a verdict
                drift_clauses['full-grid scheme: ' + clause] = drift_clauses.get('full-grid scheme: ' + clause, 0) + 1
            elif clause.startswith('P_'):
                reqs = [e['v'] for e in tr['events'][1:step]]
                rep.violation(clause, {'d': tr['d'], 'lmin': tr['lmin'], 'lmax': tr['lmax'], 'origin': tr['origin'].split(' ')[0]},
                              {'trace': {k: tr[k] for k in ('d', 'lmin', 'lmax', 'fresh', 'closed')}, 'start': tr['events'][0],
                               'requests': reqs, 'failing_step': step},
                              what='d=%d lmin=%d lmax=%d after requests %s' % (tr['d'], tr['lmin'], tr['lmax'], reqs[-4:]))
            else:
                drift_clauses[clause] = drift_clauses.get(clause, 0) + 1
    for c, n in drift_clauses.items():
        rep.drift('%s failed on %d recorded steps (implementation differs from the I-spec; property clauses decide)' % (c, n))
    rep.cov['rule'] = ('exhaustive: every edge of the TLC state graph of CombiScheme.tla replayed on a real CombiScheme; random: seeded request '
                       'sequences (70% active, 15% old, 15% arbitrary vectors); non-trivial = request on an active index (state changes); distinct by '
                       '(config, source state, request) resp. full request sequence')
    rep.cov['exhaustive'] = True
    rep.assumptions += ['TLC/SANY', 'projection: active_index_set, old_index_set, getCombiScheme(do_print=False)',
                        'bounded level box per configuration (CAP)']
    return rep.finish()


def replay(path, seed):
    rep = Report(PROP, 'quick', seed, 'model_checking')
    with open(path) as f:
        r = json.load(f)['replay']
    t = r['trace']
    cs = new_scheme(t['d'], t['lmin'], t['lmax'])
    if not t['fresh']:
        cs.active_index_set = {tuple(v) for v in r['start']['active']}
        cs.old_index_set = {tuple(v) for v in r['start']['old']}
    tr = {'d': t['d'], 'lmin': t['lmin'], 'lmax': t['lmax'], 'fresh': t['fresh'], 'closed': closed_form(t['d'], t['lmin'], t['lmax']) if t['fresh'] else [],
          'events': [first_event(cs)], 'origin': 'replay'}
    for v in r['requests']:
        ev, _ = request(cs, v)
        tr['events'].append(ev)
    rep.count(1, key='replay')
    rep.count(1, key='replay2')
    rep.sample({'replayed': path})
    return conclude(rep, [tr])
