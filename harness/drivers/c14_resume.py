"""C14 - interrupted, saved or resumed refinement ends where an uninterrupted run ends (fault enumeration over every
interruption point), model: Driver.tla Resume action / C14_ResumeKeepsState, trace spec: DriverTrace.tla."""
import json
import os
import random

import numpy as np

from harness.engine import impl, tlc
from harness.engine.report import Report
from harness.drivers import driver_pipeline as DP
from harness.drivers.c13_driver import mc_cfg, conclude

PROP = 'C14'


def model_check(rep, tier):
    for k, a, style, sub, res in [(4, 6, 'WholeGrid', 'FALSE', 'TRUE'), (4, 6, 'NewAreasOnly', 'TRUE', 'TRUE')]:
        cfg = mc_cfg(k, a, style, sub, res) + 'INVARIANT C05_ResultIsCombination\n'
        r, _ = tlc.run('MC_Driver', cfg, PROP.lower(), timeout=1500)
        rep.tlc('Driver MAXK=%d MAXAREAS=%d %s subtract_old=%s resume=%s' % (k, a, style, sub, res), r)
        if r.violated:
            raise tlc.TLCError('Driver.tla violates %s (model-level)' % r.violated)
        if r.action_counts.get('Resume', (0, 0))[1] == 0:
            raise tlc.TLCError('vacuous: Resume never taken')
    # the bookkeeping as implemented (new areas are added again after a resume): TLC must find the counterexample
    cfg = mc_cfg(4, 6, 'NewAreasOnly', 'FALSE', 'TRUE') + 'INVARIANT C05_ResultIsCombination\n'
    r, _ = tlc.run('MC_Driver', cfg, PROP.lower(), timeout=1500)
    rep.cov['model_predicts_resume_double_count'] = 'C05_ResultIsCombination' in r.violated
    rep.tlc('Driver NewAreasOnly as implemented, resume allowed (counterexample expected)', r, violated=r.violated)


def configs(tier):
    L = [dict(strategy='dimwise', D=2, lmin=1, lmax=2, func='cornerpeak'),
         dict(strategy='dimwise', D=2, lmin=1, lmax=2, func='product', rebalancing=False, boundary=False, version=7),
         dict(strategy='extendsplit', D=2, lmin=1, lmax=2, func='cornerpeak'),
         dict(strategy='cell', D=2, lmin=2, lmax=2, func='cornerpeak')]
    if tier == 'thorough':
        L += [dict(strategy='dimwise', D=3, lmin=1, lmax=2, func='cornerpeak'),
              dict(strategy='dimwise', D=2, lmin=1, lmax=3, func='vector', version=8),
              dict(strategy='dimwise', D=2, lmin=2, lmax=3, func='cornerpeak', version=2),
              dict(strategy='extendsplit', D=2, lmin=1, lmax=3, func='product', version=1),
              dict(strategy='extendsplit', D=3, lmin=1, lmax=2, func='cornerpeak', nrbe=2),
              dict(strategy='extendsplit', D=2, lmin=1, lmax=2, func='vector', version=2)]
    for c in L:
        c.setdefault('norm', np.inf)
    return L


def final_state(S, ret):
    (tr, lm), sch = DP.structure(S)
    return {'structure': (tr, lm), 'scheme': sch, 'result': np.atleast_1d(np.asarray(ret[3], dtype=float)),
            'points': int(S['combi'].get_total_num_points())}


def probe_points(S, rng_seed=0):
    r = random.Random(rng_seed)
    D = S['c']['D']
    return [tuple(float(S['a'][d] + (S['b'][d] - S['a'][d]) * r.random()) for d in range(D)) for _ in range(5)]


def call_values(S, pts):
    """interpolated values at pts, obtained from a deep copy of the instance: the call itself fills the integrand's evaluation cache, which the
    extend-split strategy uses as evaluation count of later areas (an interpolation between stop and continuation can therefore change the
    continuation - observed for version 2; reported as drift by the 'continue-after-call' mode, not demanded by the property)"""
    if S['c']['strategy'] == 'cell':
        return None
    import copy
    with impl.quiet(), impl.watchdog(120):
        return np.asarray(copy.deepcopy(S['combi'])(pts), dtype=float)


def run(tier, seed):
    rep = Report(PROP, tier, seed, 'fault_enumeration')
    model_check(rep, tier)
    traces = []
    nev = 5 if tier == 'quick' else 8
    work = os.getcwd()
    for c in configs(tier):
        name = '%s D=%d (%d,%d) %s' % (c['strategy'], c['D'], c['lmin'], c['lmax'], c['func'])
        try:
            # probe to find the point counts after each evaluation
            mx, nps = 0, []
            for _ in range(nev):
                S, rec, ret = DP.run_once(c, {'tol': -1.0, 'min': 1, 'max': mx}, checks=False)
                nps = [e['np'] for e in rec.events if e['k'] == 'E']
                errs = [e['_err'] for e in rec.events if e['k'] == 'E']
                mx = nps[-1]
            final_lims = {'tol': -1.0, 'min': 1, 'max': nps[-2]}      # uninterrupted run: stops at evaluation len(nps)
            S0, rec0, ret0 = DP.run_once(c, final_lims, checks=False)
            F0 = final_state(S0, ret0)
        except impl.Timeout:
            rep.exclude('%s: probe timed out' % name)
            continue
        for j in range(len(nps) - 1):      # interrupt right after evaluation j+1
            for mode in ('continue', 'save-restore', 'continue-tol0', 'continue-container', 'single-step-chain', 'continue-same-limits', 'continue-after-reevaluation'):
                lims = {'tol': -1.0, 'min': 1, 'max': (nps[j] - 1) if j > 0 else 0}
                if mode == 'continue-tol0':
                    # first phase stopped by a positive tolerance, continued with tolerance 0 (never met) and the final budget
                    if not errs[j] or errs[j] <= 0:
                        continue
                    lims = {'tol': float(errs[j]), 'min': 1, 'max': None}
                if mode in ('continue-container', 'single-step-chain') and c['strategy'] != 'dimwise':
                    # extend-split / cell: benefits divide by evaluation counts taken from the integrand's cache, which a new call starts afresh -
                    # the continuation through a new call is not comparable there
                    continue
                if mode == 'single-step-chain' and j > 0:
                    continue      # the chain has no interruption index of its own: every single step is an interruption
                case = '%s interrupted after evaluation %d, %s' % (name, j + 1, mode)
                if mode == 'continue-same-limits':
                    # the limits of the continuation are already met by the stopped state (the boundary of "larger limits"): the run with these
                    # limits ends where it was stopped, so the continuation - called twice - must change nothing
                    try:
                        S, rec, ret = DP.run_once(c, lims, checks=False)
                        Fb = final_state(S, ret)
                        for _ in range(2):
                            with impl.quiet(), impl.watchdog(240):
                                ret2 = S['combi'].continue_adaptive_refinement(tol=-1.0, max_evaluations=lims['max'], min_evaluations=1)
                        Fa = final_state(S, ret2)
                    except impl.Timeout:
                        rep.exclude(case + ': timeout')
                        continue
                    except Exception as ex:
                        rep.violation('C14_NoException', {'strategy': c['strategy'], 'mode': mode, 'exception': type(ex).__name__},
                                      {'config': str(c), 'interrupt_after': j + 1, 'mode': mode, 'exception': repr(ex)}, what=case + ' raised %r' % ex)
                        continue
                    fin = {'k': 'Final', 'same_structure': Fa['structure'] == Fb['structure'], 'same_scheme': Fa['scheme'] == Fb['scheme'],
                           'same_result': DP.close(Fa['result'], Fb['result'], 1e-12), 'same_points': Fa['points'] == Fb['points'], 'restored_same': True,
                           '_result': [float(x) for x in Fa['result']], '_uninterrupted': [float(x) for x in Fb['result']], '_points': [Fa['points'], Fb['points']]}
                    tr = DP.to_trace(c, lims, [fin], case)
                    tr['_sig'] = {'mode': mode, 'structure_same': fin['same_structure'] and fin['same_scheme'] and fin['same_points'], 'new_areas_only': c['strategy'] in ('extendsplit', 'cell')}
                    traces.append(tr)
                    rep.count(1, key=case)
                    continue
                try:
                    if mode == 'single-step-chain':
                        # the built-in way to interrupt: calls with single_step=True (each stops after the first refinement that adds points), each
                        # continued by a new call that is handed the run's own refinement, until the final budget is exceeded
                        c1 = dict(c, single_step=True)
                        S, rec, ret = DP.run_once(c1, final_lims, checks=False)
                        for _ in range(40):
                            if [e['np'] for e in rec.events if e['k'] == 'E'][-1] > final_lims['max']:
                                break
                            with impl.quiet(), impl.watchdog(240):
                                ret = S['combi'].performSpatiallyAdaptiv(c['lmin'], c['lmax'], S['ec'], tol=-1.0, max_evaluations=final_lims['max'], min_evaluations=1,
                                                                        print_output=False, refinement_container=S['combi'].refinement, single_step=True)
                        events = []
                        restored_same = True
                    elif mode in ('continue', 'continue-tol0', 'continue-container', 'continue-after-reevaluation'):
                        S, rec, ret = DP.run_once(c, lims, checks=False)
                        events = rec.events + [DP.ret_event(S, rec, ret, c, lims, with_c05=False)]
                        restored_same = True
                    else:
                        S = DP.build(c)
                        with impl.quiet(), impl.watchdog(240):
                            ret = S['combi'].performSpatiallyAdaptiv(c['lmin'], c['lmax'], S['ec'], tol=-1.0, max_evaluations=lims['max'], min_evaluations=1, print_output=False)
                        events = []
                        fn = os.path.join(work, 'c14_%d.dill' % os.getpid())
                        pts = probe_points(S)
                        before = call_values(S, pts)
                        stb = final_state(S, ret)
                        with impl.quiet():
                            S['combi'].save_to_file(fn)
                            from sparseSpACE.StandardCombi import StandardCombi
                            combi2 = StandardCombi.restore_from_file(fn)
                        os.remove(fn)
                        S = dict(S)
                        S['combi'] = combi2
                        S['op'] = combi2.operation
                        S['f'] = combi2.operation.f
                        after = call_values(S, pts)
                        (tr2, lm2), sch2 = DP.structure(S)
                        restored_same = (before is None or (after is not None and np.array_equal(before, after))) and (tr2, lm2) == stb['structure'] \
                            and sch2 == stb['scheme'] and int(combi2.get_total_num_points()) == stb['points']
                    events.append({'k': 'Resume', 'minE': 1, 'maxE': int(final_lims['max'])})
                    cont_tol = 0 if mode == 'continue-tol0' else -1.0
                    if mode in ('continue', 'continue-tol0', 'continue-container', 'continue-after-reevaluation'):
                        rec.tol = cont_tol
                    if mode == 'continue-after-reevaluation':
                        # between stop and continuation the caller asks for the combination re-evaluated from scratch (a read-only request)
                        with impl.quiet(), impl.watchdog(240):
                            S['combi'].evaluate_final_combi()
                    with impl.quiet(), impl.watchdog(240):
                        if mode == 'single-step-chain':
                            ret2 = ret
                        elif mode == 'continue-container':
                            # the documented third way to continue: a new performSpatiallyAdaptiv call that is handed the refinement of the stopped run
                            ret2 = S['combi'].performSpatiallyAdaptiv(c['lmin'], c['lmax'], S['ec'], tol=cont_tol, max_evaluations=final_lims['max'], min_evaluations=1,
                                                                     print_output=False, refinement_container=S['combi'].refinement)
                        else:
                            ret2 = S['combi'].continue_adaptive_refinement(tol=cont_tol, max_evaluations=final_lims['max'], min_evaluations=1)
                    F = final_state(S, ret2)
                except impl.Timeout:
                    rep.exclude(case + ': timeout')
                    continue
                except Exception as ex:
                    rep.violation('C14_NoException', {'strategy': c['strategy'], 'mode': mode, 'exception': type(ex).__name__},
                                  {'config': str(c), 'interrupt_after': j + 1, 'mode': mode, 'exception': repr(ex)}, what=case + ' raised %r' % ex)
                    continue
                fin = {'k': 'Final', 'same_structure': F['structure'] == F0['structure'], 'same_scheme': F['scheme'] == F0['scheme'],
                       'same_result': DP.close(F['result'], F0['result'], 1e-12), 'same_points': F['points'] == F0['points'],
                       'restored_same': bool(restored_same), '_result': [float(x) for x in F['result']],
                       '_uninterrupted': [float(x) for x in F0['result']], '_points': [F['points'], F0['points']]}
                tr = DP.to_trace(c, lims, [fin], case)
                tr['_sig'] = {'mode': mode, 'structure_same': fin['same_structure'] and fin['same_scheme'] and fin['same_points'],
                              'new_areas_only': c['strategy'] in ('extendsplit', 'cell')}
                traces.append(tr)
                rep.count(1, key=case)
                rep.sample({'case': case, 'final_result': fin['_result'], 'uninterrupted': fin['_uninterrupted'], 'points': fin['_points']}, limit=5)
    # extension beyond the listed properties: refinement structure of the cell strategy (spec/CellScheme.tla), drift reports only
    try:
        from harness.drivers import cellscheme_extra
        cellscheme_extra.run(rep, tier)
    except Exception as ex:      # the extension never decides the listed property
        rep.exclude('extension CellScheme.tla not evaluated: %r' % (ex,))
    return conclude(rep, traces, ('C14_',))


def replay(path, seed):
    print('replay: re-run `bin/check C14` (the failing case is identified by configuration and interruption index in the replay file)')
    return run('quick', seed)
