"""C04 - refinement never loses exactness the initial configuration had.

Dimension-wise strategy: dimwise_props / dimwise_pipeline (discrete criterion InitialSpaceExact model-checked on DimWise.tla,
numeric exactness of every initial hat required by DimWiseTrace.tla).  Extend-split strategy: ExtendSplit.tla invariant
C07_LocalCombination (equivalent to exactness for multilinear functions) model-checked, numeric exactness of all multilinear
monomials required by ExtendSplitTrace.tla (clause C04_MultilinearExact).  Cell strategy (lmin = lmax): natural refinement runs
with the multilinear monomials carried as extra output components (harness check, no separate model)."""
import itertools
import random

import numpy as np

from harness.engine import impl
from harness.drivers import dimwise_props
from harness.drivers import c07_extendsplit as ES
from harness.drivers import extendsplit_pipeline as EP


def cell_runs(rep, tier):
    from sparseSpACE.spatiallyAdaptiveCell import SpatiallyAdaptiveCellScheme
    from sparseSpACE.Grid import TrapezoidalGrid
    from sparseSpACE.GridOperation import Integration
    from sparseSpACE.ErrorCalculator import ErrorCalculatorSurplusCell
    cases = [(2, 2, [0.0, 0.0], [1.0, 1.0]), (2, 3, [-1.0, 0.5], [2.0, 1.5])] if tier == 'quick' else \
        [(2, 2, [0.0, 0.0], [1.0, 1.0]), (2, 3, [-1.0, 0.5], [2.0, 1.5]), (3, 2, [0.0] * 3, [1.0] * 3), (2, 4, [0.0, 0.0], [1.0, 2.0])]
    for D, lvl, a, b in cases:
        a, b = np.array(a), np.array(b)
        f, terms = EP.make_function(D, a, b)
        grid = TrapezoidalGrid(a=a, b=b, boundary=True)
        op = Integration(f=f, grid=grid, dim=D)
        combi = SpatiallyAdaptiveCellScheme(a, b, operation=op)
        mx = 0
        for k in range(4 if tier == 'quick' else 6):
            try:
                with impl.quiet(), impl.watchdog(240):
                    if k == 0:
                        ret = combi.performSpatiallyAdaptiv(lvl, lvl, ErrorCalculatorSurplusCell(), tol=-1, max_evaluations=0, print_output=False)
                    else:
                        combi.refine()
                        ret = combi.continue_adaptive_refinement(tol=-1, max_evaluations=0)
            except impl.Timeout:
                rep.exclude('cell D=%d level %d: timeout' % (D, lvl))
                break
            res = np.asarray(ret[3], dtype=float)
            bad = []
            for j, S in enumerate(terms):
                ex = EP.monomial_integral(S, a, b)
                if abs(res[2 + j] - ex) > 1e-10 * max(1.0, abs(ex)):
                    bad.append([list(S), float(res[2 + j]), ex])
            rep.count(1, key=('cell', D, lvl, k))
            rep.residual('cell_multilinear_exact', not bad)
            if bad:
                rep.violation('C04_MultilinearExact', {'strategy': 'cell', 'D': D, 'level': lvl}, {'D': D, 'level': lvl, 'a': list(a), 'b': list(b), 'evaluation': k + 1, 'bad': bad},
                              what='cell strategy D=%d level %d after %d refinements: %s' % (D, lvl, k, bad[:2]))


def run(tier, seed):
    rep = dimwise_props.run_prop('C04', tier, seed, finish=False)
    rep.level = 'model_checking'
    # extend-split part
    saved_pid = rep.pid
    traces = ES.collect(rep, 'quick' if tier == 'quick' else 'thorough', seed + 7, ('C04_',)) if tier == 'thorough' else es_light(rep, seed)
    verdicts, st, trn = EP.validate(traces)
    rep.cov['states'] += st
    rep.cov['transitions'] += trn
    rep.cov['traces_validated_against_impl'] += len(traces)
    for tr, v in zip(traces, verdicts):
        for step, clause in v:
            if clause.startswith('C04_'):
                cfg = tr['_script']['cfg']
                rep.violation(clause, ES.signature(tr, step, clause), {'script': tr['_script'], 'failing_step': step, 'detail': tr.get('_detail')},
                              what='extend-split %s at step %d of %s' % ({k: cfg[k] for k in ('D', 'lmin', 'lmax', 'version', 'nrbe', 'auto', 'single')}, step, tr['origin']))
    cell_runs(rep, tier)
    fault_runs(rep, tier)
    return rep.finish()


def fault_runs(rep, tier):
    """a fault at a particular point: the user's model raises once in the middle of an evaluation step of the extend-split / cell strategy and the
    caller continues the refinement on the same object; every multilinear function must still be integrated exactly at the next stop"""
    from harness.drivers import driver_pipeline as DP
    from harness.drivers.c05_result import faulty_run
    cfgs = [dict(strategy='extendsplit', D=2, lmin=1, lmax=2, func='multilin', norm=np.inf), dict(strategy='extendsplit', D=2, lmin=1, lmax=2, func='multilin', norm=np.inf, auto=True),
            dict(strategy='cell', D=2, lmin=2, lmax=2, func='multilin', norm=np.inf)]
    if tier == 'thorough':
        cfgs.append(dict(strategy='extendsplit', D=3, lmin=1, lmax=2, func='multilin', norm=np.inf))
    for c in cfgs:
        for kfault in ((40, 110) if tier == 'quick' else (5, 25, 40, 70, 110, 160, 240, 400)):
            name = '%s D=%d (%d,%d)%s, model raises once at evaluation %d' % (c['strategy'], c['D'], c['lmin'], c['lmax'], ' auto' if c.get('auto') else '', kfault)
            lims = {'tol': -1.0, 'min': 1, 'max': 130 if c['strategy'] != 'cell' else 60}
            try:
                S, rec, ret, nfaults = faulty_run(dict(c, timeout=120), kfault, lims)
            except impl.Timeout:
                rep.exclude(name + ': timeout')
                continue
            except Exception as ex:
                rep.exclude('%s: continuing after the fault raised %r (judged by the C05 check)' % (name, ex))
                continue
            res = np.atleast_1d(np.asarray(ret[3], dtype=float))
            exact = np.atleast_1d(np.asarray(S['ref'], dtype=float))
            bad = [[j, float(res[j]), float(exact[j])] for j in range(1, len(exact)) if abs(res[j] - exact[j]) > 1e-10 * max(1.0, abs(exact[j]))]
            rep.count(1, key=('fault', name))
            rep.residual('multilinear_exact_after_fault', not bad)
            if bad:
                rep.violation('C04_MultilinearExact', {'strategy': c['strategy'], 'fault': True}, {'config': str(c), 'fault_at': kfault, 'faults': nfaults, 'bad': bad},
                              what='%s (%d fault): multilinear functions no longer exact: %s' % (name, nfaults, bad[:2]))


def es_light(rep, seed):
    """quick tier: random and corner-chasing extend-split histories only (the edge replay is part of the C07 check)"""
    rng = random.Random(seed + 7)
    traces = []
    for c, steps in ES.random_configs('quick', rng)[14:]:
        try:
            tr = EP.random_history(rng, c, steps)
        except impl.Timeout:
            rep.exclude('extend-split history %s timed out' % c['name'])
            continue
        except Exception as ex:
            rep.exclude('extend-split history %s raised %r (reported by the C07 check)' % (c['name'], ex))
            continue
        traces.append(tr)
        rep.count(1, key=('es', str(tr['_script'])))
    return traces


def replay(path, seed):
    import json
    from harness.engine.report import Report
    with open(path) as f:
        r = json.load(f).get('replay', {})
    if 'fault_at' in r:
        # a fault-injection case: the family is small, it is re-run as a whole
        rep = Report('C04', 'quick', seed, 'model_checking')
        rep.count(1, key='a')
        rep.count(1, key='b')
        fault_runs(rep, 'quick')
        return rep.finish()
    if 'level' in r and 'script' not in r:
        rep = Report('C04', 'quick', seed, 'model_checking')
        rep.count(1, key='a')
        rep.count(1, key='b')
        cell_runs(rep, 'quick')
        return rep.finish()
    return dimwise_props.replay_prop('C04', path, seed)
