"""Driving and observing the dimension-wise strategy (SpatiallyAdaptiveSingleDimensions2) step by step.

The refinement decisions are scripted: after every evaluation the harness overwrites the benefit of every
interval with the scripted number and lets the library's own refine() select and split (public plug-in point:
benefits normally come from the ErrorCalculator).  Observation is by reading public attributes.
"""
import hashlib
import math
from fractions import Fraction

import numpy as np

from harness.engine import impl

LAT = 2 ** 12   # lattice resolution used for snapping positions (positions are a + k (b-a)/LAT)


def _imports():
    from sparseSpACE.spatiallyAdaptiveSingleDimension2 import SpatiallyAdaptiveSingleDimensions2
    from sparseSpACE.Grid import GlobalTrapezoidalGrid
    from sparseSpACE.GridOperation import Integration
    from sparseSpACE.ErrorCalculator import ErrorCalculatorSingleDimVolumeGuided
    from sparseSpACE.Function import Function
    return SpatiallyAdaptiveSingleDimensions2, GlobalTrapezoidalGrid, Integration, ErrorCalculatorSingleDimVolumeGuided, Function


_PRIMES = (73856093, 19349663, 83492791, 49979687, 86028121)


def hashval(coords, salt=0, a=None, b=None):
    """deterministic pseudo-random integer in -8..8 attached to a point: an 'arbitrary function'.
    Computed from the lattice index of the point (2^16 resolution per dimension) so that it can be vectorised."""
    h = salt
    for d, c in enumerate(coords):
        lo = 0.0 if a is None else a[d]
        hi = 1.0 if b is None else b[d]
        k = int(round((float(c) - lo) / (hi - lo) * 65536))
        h ^= (k * _PRIMES[d % 5]) & 0xFFFFFFF
    return h % 17 - 8


def hashval_vec(X, a, b):
    X = np.asarray(X, dtype=float)
    h = np.zeros(len(X), dtype=np.int64)
    for d in range(X.shape[1]):
        k = np.rint((X[:, d] - a[d]) / (b[d] - a[d]) * 65536).astype(np.int64)
        h ^= (k * _PRIMES[d % 5]) & 0xFFFFFFF
    return h % 17 - 8


def hat1d_vec(level, index, a, b, x):
    w = b - a
    if level < 0:      # pseudo level: the constant 1 (used to write linear functions as tensor products)
        return np.ones_like(np.asarray(x, dtype=float))
    if level == 0:
        return (b - x) / w if index == 0 else (x - a) / w
    h = w / 2 ** level
    c = a + index * h
    return np.maximum(0.0, 1.0 - np.abs(x - c) / h)


def hat1d(level, index, a, b):
    """hierarchical hat of level `level` >= 1 (index odd, support width 2*(b-a)/2^level) on [a,b]; level 0: the two
    boundary functions (index 0: 1 at a falling to 0 at b; index 1: rising)."""
    w = (b - a)
    if level == 0:
        if index == 0:
            return lambda x: (b - x) / w
        return lambda x: (x - a) / w
    h = w / 2 ** level
    c = a + index * h
    return lambda x: max(0.0, 1.0 - abs(x - c) / h)


def make_function(D, a, b, hats, extra_random=True):
    """vector-valued integrand: component 0 = arbitrary hash function (nodal values), then the requested hats
    (each hat = tuple of (level, index) per dimension), then a smooth function driving nothing in particular."""
    Function = _imports()[4]

    class VF(Function):
        def __init__(self):
            super().__init__()
            self.n_out = 2 + len(hats)

        def output_length(self):
            return self.n_out

        def eval_vectorized(self, coordinates):
            X = np.asarray(coordinates, dtype=float)
            shape = X.shape[:-1]
            X = X.reshape(-1, D)
            out = np.empty((len(X), self.n_out))
            out[:, 0] = hashval_vec(X, a, b)
            out[:, 1] = np.exp(-np.sum((X - 0.3) ** 2, axis=1))
            for j, h in enumerate(hats):
                v = np.ones(len(X))
                for d, (l, i) in enumerate(h):
                    v = v * hat1d_vec(l, i, a[d], b[d], X[:, d])
                out[:, 2 + j] = v
            return out.reshape(shape + (self.n_out,))

        def eval(self, coords):
            return self.eval_vectorized(np.asarray([coords], dtype=float))[0]
    return VF()


def initial_hats(D, lmin, lmax, boundary):
    """all hierarchical hats (level vector, index vector) of the initial (lmin,lmax) sparse-grid space.
    The space is spanned by hats of level vector l with  l_d >= (0 if boundary else 1) and l below some
    grid of the standard scheme, i.e. sum over d of max(l_d, lmin) <= lmax + (D-1)*lmin."""
    out = []
    lo = 0 if boundary else 1

    def rec(d, cur):
        if d == D:
            if sum(max(l, lmin) for l in cur) <= lmax + (D - 1) * lmin:
                idxs = [[0, 1] if l == 0 else list(range(1, 2 ** l, 2)) for l in cur]
                def rec2(k, ii):
                    if k == D:
                        out.append(tuple((cur[j], ii[j]) for j in range(D)))
                        return
                    for i in idxs[k]:
                        rec2(k + 1, ii + [i])
                rec2(0, [])
            return
        for l in range(lo, lmax + 1):
            rec(d + 1, cur + [l])
    rec(0, [])
    return out


def hat_integral(h, a, b):
    """exact integral of a tensor hat over the box"""
    v = Fraction(1)
    for d, (l, i) in enumerate(h):
        w = Fraction(b[d]) - Fraction(a[d])
        v *= w if l < 0 else (w / 2 if l == 0 else w / 2 ** l)
    return v


class DimWiseRun:
    def __init__(self, D, lmin, lmax, version=6, rebalancing=True, boundary=True, margin=None, safety=0.1,
                 a=None, b=None, with_hats=True, modified_basis=False, scripted=True, max_hats=None, hat_seed=0, int_domain=False, continue_via='resume', extra=None):
        SA, GT, Integration, EC, _ = _imports()
        self.D, self.lmin, self.lmax0 = D, lmin, lmax
        self.a = np.array([0.0] * D if a is None else a, dtype=float)
        self.b = np.array([1.0] * D if b is None else b, dtype=float)
        self.boundary = boundary
        self.hats = initial_hats(D, lmin, lmax, boundary) if with_hats else []
        self.modified_basis = bool(modified_basis)
        if modified_basis:
            # modified basis (boundary points off, linear extrapolation): the functions that have to stay exact are the LINEAR functions -
            # carried as tensor products of the constant 1 (pseudo level -1) and one level-0 boundary function
            self.hats = [tuple((-1, 0) for _ in range(D))] + [tuple((0, 1) if k == d else (-1, 0) for k in range(D)) for d in range(D)] + \
                        [tuple((0, 0) if k == d else (-1, 0) for k in range(D)) for d in range(D)]
        self.hats_total = len(self.hats)
        if max_hats is not None and len(self.hats) > max_hats and not modified_basis:
            import random as _r
            self.hats = sorted(_r.Random(hat_seed).sample(self.hats, max_hats))
        self.f = make_function(D, self.a, self.b, self.hats)
        self.grid = GT(a=self.a, b=self.b, boundary=boundary, modified_basis=modified_basis)
        self.op = Integration(f=self.f, grid=self.grid, dim=D)
        kw = dict(version=version, operation=self.op, rebalancing=rebalancing, rebalancing_safety_factor=safety)
        if margin is not None:
            kw['margin'] = margin
        kw.update(extra or {})      # further constructor options of the strategy (dim_adaptive, force_balanced_refinement_tree, ...)
        # integer-valued domains may be handed over as integer arrays (accepted by the library)
        a_arg, b_arg = (np.array([int(x) for x in self.a]), np.array([int(x) for x in self.b])) if int_domain else (self.a, self.b)
        self.combi = SA(a_arg, b_arg, **kw)
        # the margin the caller asked for (documented default 0.9): the specification is fed with the request, not with what the object stored
        self.margin_req = 0.9 if margin is None else float(margin)
        from sparseSpACE.ErrorCalculator import ErrorCalculator

        class ScriptedError(ErrorCalculator):
            # the public plug-in point for refinement indicators; the harness overwrites the numbers after every evaluation
            def calc_error(self, refine_object, norm, volume_weights=None):
                return 0.0
        self.ec = ScriptedError() if scripted else EC()
        self.started = False
        self.continue_via = continue_via      # 'resume': continue_adaptive_refinement; 'container': a new performSpatiallyAdaptiv call that is handed the
        self.ncont = 0                        # object's own refinement container (documented way to continue); 'mixed': alternating
        self.cfg = dict(D=D, lmin=lmin, lmax=lmax, version=version, rebalancing=rebalancing, boundary=boundary,
                        margin=self.margin_req, safety=safety, a=list(map(float, self.a)), b=list(map(float, self.b)), extra=dict(extra or {}), modified_basis=bool(modified_basis))

    # ---- driving
    def evaluate(self):
        """one evaluation of the adaptive loop (start or continue) that stops right after evaluating"""
        with impl.quiet(), impl.watchdog(120):
            if not self.started:
                self.started = True
                self.ret = self.combi.performSpatiallyAdaptiv(self.lmin, self.lmax0, self.ec, tol=-1, max_evaluations=0, print_output=False)
            else:
                self.ncont += 1
                via = self.continue_via if self.continue_via != 'mixed' else ('container' if self.ncont % 2 else 'resume')
                if via == 'container':
                    self.ret = self.combi.performSpatiallyAdaptiv(self.lmin, self.lmax0, self.ec, tol=-1, max_evaluations=0, print_output=False,
                                                                 refinement_container=self.combi.refinement)
                else:
                    self.ret = self.combi.continue_adaptive_refinement(tol=-1, max_evaluations=0)
        return self.ret

    def intervals(self, d):
        return self.combi.refinement.get_refinement_container_for_dim(d).get_objects()

    def set_benefits(self, B):
        """B: list per dimension of list per interval (container order) of numbers"""
        mx = 0.0
        for d in range(self.D):
            objs = self.intervals(d)
            assert len(objs) == len(B[d]), 'benefit script does not match container'
            for o, v in zip(objs, B[d]):
                o.benefit = float(v)
                o.error = float(v)
                mx = max(mx, float(v))
        self.combi.benefit_max = mx

    def refine(self):
        with impl.quiet(), impl.watchdog(120):
            self.combi.refine()

    # ---- observation
    def snap(self, d, x):
        k = (float(x) - self.a[d]) / (self.b[d] - self.a[d]) * LAT
        r = round(k)
        if abs(k - r) > 1e-7:
            raise ValueError('coordinate %r of dimension %d is not on the dyadic lattice' % (x, d))
        return int(r)

    def project(self, with_points=True):
        c = self.combi
        st = {'tree': [], 'lmax': [int(x) for x in c.lmax], 'cursors': []}
        for d in range(self.D):
            cont = c.refinement.get_refinement_container_for_dim(d)
            st['tree'].append([{'s': self.snap(d, o.start), 'e': self.snap(d, o.end), 'ls': int(o.levels[0]), 'le': int(o.levels[1]),
                                'c': int(o.coarsening_level)} for o in cont.get_objects()])
            st['cursors'].append({'pop': len(cont.popArray), 'startNew': int(cont.startNewObjects), 'search': int(cont.searchPosition)})
        st['active'] = sorted([int(x) for x in v] for v in c.combischeme.active_index_set)
        st['old'] = sorted([int(x) for x in v] for v in c.combischeme.old_index_set)
        st['scheme'] = sorted([[int(x) for x in g.levelvector], int(g.coefficient)] for g in c.scheme)
        if with_points:
            # per component grid the 1-D point lists used for it
            pts = []
            for g in c.scheme:
                coords, levels, _ = c.get_point_coord_for_each_dim(g.levelvector)
                pts.append([[int(x) for x in g.levelvector], [[self.snap(d, x) for x in coords[d]] for d in range(self.D)]])
            st['points'] = sorted(pts)
        return st
