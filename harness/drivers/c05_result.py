"""C05 - the reported result is the combination of the component results.

Model: Driver.tla (running-sum bookkeeping with value tokens) model-checked by TLC for both bookkeeping styles.
Binding: real runs of the dimension-wise and extend-split (default version) strategies with several stop points; after
every evaluation and at return the harness recomputes the coefficient-weighted sum with fresh grid objects,
re-evaluates from scratch, repeats the run with reevaluate_at_end, and applies the exposed points and weights;
DriverTrace.tla requires all of them to agree.  Standard and dimension-adaptive combination are checked as
single-evaluation traces."""
import json
import random

import numpy as np

from harness.engine import impl, tlc
from harness.engine.report import Report
from harness.drivers import driver_pipeline as DP
from harness.drivers.c13_driver import mc_cfg

PROP = 'C05'


def model_check(rep, tier):
    # (MAXK, MAXAREAS, STYLE, SUBTRACT_OLD, ALLOW_RESUME, SINGLE_STEP, RECALC): the bookkeeping as implemented (areas evaluated again first give back
    # their previous contribution) keeps the running result equal to the combination also across resumes and periodic recalculation
    runs = [(4, 6, 'WholeGrid', 'FALSE', 'TRUE', 'FALSE', 0), (4, 6, 'NewAreasOnly', 'TRUE', 'TRUE', 'FALSE', 0), (4, 6, 'NewAreasOnly', 'TRUE', 'TRUE', 'FALSE', 1),
            (4, 6, 'NewAreasOnly', 'TRUE', 'TRUE', 'TRUE', 2), (4, 6, 'WholeGrid', 'FALSE', 'TRUE', 'TRUE', 1)]
    if tier == 'thorough':
        runs += [(5, 8, 'WholeGrid', 'FALSE', 'TRUE', 'FALSE', 0), (5, 8, 'NewAreasOnly', 'TRUE', 'TRUE', 'FALSE', 2), (5, 8, 'NewAreasOnly', 'TRUE', 'TRUE', 'TRUE', 1)]
    for k, a, style, sub, res, single, recalc in runs:
        cfg = mc_cfg(k, a, style, sub, res, single, recalc) + 'INVARIANT C05_ResultIsCombination\n'
        r, _ = tlc.run('MC_Driver', cfg, PROP.lower(), timeout=1500)
        rep.tlc('Driver MAXK=%d MAXAREAS=%d %s subtract_old=%s resume=%s single_step=%s recalc=%d' % (k, a, style, sub, res, single, recalc), r)
        if r.violated:
            raise tlc.TLCError('Driver.tla violates %s (model-level)' % r.violated)
    # control: without giving back the previous contribution (the bookkeeping before the repair) TLC must find the double count
    for res, recalc in (('TRUE', 0), ('FALSE', 1)):
        r, _ = tlc.run('MC_Driver', mc_cfg(4, 6, 'NewAreasOnly', 'FALSE', res, 'FALSE', recalc) + 'INVARIANT C05_ResultIsCombination\n', PROP.lower(), timeout=1500)
        rep.tlc('Driver NewAreasOnly without subtraction, resume=%s recalc=%d (counterexample expected)' % (res, recalc), r, violated=r.violated)
        if 'C05_ResultIsCombination' not in r.violated:
            raise tlc.TLCError('vacuous: Driver.tla does not show the double count without subtraction (resume=%s recalc=%d)' % (res, recalc))


def standard_traces(rep, tier):
    """standard and dimension-adaptive combination: one evaluation, then return"""
    from sparseSpACE.StandardCombi import StandardCombi
    from sparseSpACE.DimAdaptiveCombi import DimAdaptiveCombi
    from sparseSpACE.Grid import TrapezoidalGrid
    from sparseSpACE.GridOperation import Integration
    out = []
    cases = [(2, 1, 3, True), (2, 2, 4, False), (3, 1, 3, True)] if tier == 'quick' else [(2, 1, 3, True), (2, 2, 4, False), (3, 1, 3, True), (3, 2, 4, False), (2, 1, 5, True), (4, 1, 3, True)]
    for D, lmin, lmax, bnd in cases:
        for func in ('cornerpeak', 'vector'):
            c = dict(strategy='standard', D=D, lmin=lmin, lmax=lmax, func=func, boundary=bnd)
            a, b = np.zeros(D), np.ones(D)
            f = DP.make_function(func, D)
            grid = TrapezoidalGrid(a=a, b=b, boundary=bnd)
            op = Integration(f=f, grid=grid, dim=D, reference_solution=None)
            combi = StandardCombi(a, b, operation=op)
            with impl.quiet():
                scheme, _, res = combi.perform_operation(lmin, lmax)
            f2 = DP.make_function(func, D)
            ind = np.zeros(f2.output_length())
            for g in scheme:
                g2 = TrapezoidalGrid(a=a, b=b, boundary=bnd)
                ind = ind + g.coefficient * np.asarray(g2.integrate(f2, g.levelvector, a, b), dtype=float)
            with impl.quiet():
                pts, w = combi.get_points_and_weights()
            vals = np.asarray([f2.eval(tuple(p)) for p in pts], dtype=float).reshape(len(pts), -1)
            pw = (np.asarray(w, dtype=float)[:, None] * vals).sum(axis=0)
            ev = [{'k': 'E', 'eok': True, 'np': int(combi.get_total_num_points()), 'nonneg': True, 'err_true': True, 'np_true': True,
                   'res_comb': DP.close(res, ind), '_res': [float(x) for x in np.atleast_1d(res)], '_indep': [float(x) for x in ind]},
                  {'k': 'Ret', 'lens': [], 'final_comb': DP.close(res, ind), 'reeval_same': True, 'reeval_flag_same': True,
                   'pw_same': DP.close(res, pw, 1e-10), '_pw': [float(x) for x in pw]}]
            out.append(DP.to_trace(c, {'tol': 1e9, 'min': 1, 'max': None}, ev, 'standard D=%d (%d,%d) bnd=%s %s' % (D, lmin, lmax, bnd, func)))
            rep.count(1, key=('standard', D, lmin, lmax, bnd, func))
    # dimension-adaptive strategy: several runs per dimension in one process - different integrands, domains, grid families, and the
    # same driver object used twice (results of one run must never leak into another)
    from sparseSpACE.Grid import ClenshawCurtisGrid
    runs = [(2, 1e-3, 'cornerpeak', None, 'trapezoid'), (2, 1e-3, 'product', None, 'trapezoid'), (2, 1e-2, 'cornerpeak', ([0.0, 0.5], [2.0, 1.5]), 'trapezoid'),
            (2, 1e-3, 'cornerpeak', None, 'clenshaw'), (3, 1e-2, 'cornerpeak', None, 'trapezoid'), (3, 1e-2, 'product', None, 'trapezoid')]
    if tier == 'thorough':
        runs += [(2, 1e-4, 'vector', None, 'trapezoid'), (3, 1e-3, 'cornerpeak', ([0.0, 0.0, 0.0], [1.0, 2.0, 0.5]), 'trapezoid'), (4, 1e-2, 'cornerpeak', None, 'trapezoid'),
                 (4, 1e-2, 'product', None, 'trapezoid')]
    mkgrid = lambda kind, a, b: TrapezoidalGrid(a=a, b=b, boundary=True) if kind == 'trapezoid' else ClenshawCurtisGrid(a=a, b=b, boundary=True)
    previous = {}
    for D, tol, func, box, gk in runs:
        c = dict(strategy='dimadaptive', D=D, lmin=1, lmax=2, func=func)
        a, b = (np.zeros(D), np.ones(D)) if box is None else (np.array(box[0]), np.array(box[1]))
        for reuse in (False, True):
            name = 'dimadaptive D=%d %s box=%s grid=%s tol=%g%s' % (D, func, box, gk, tol, ' (driver object of the previous run re-used)' if reuse else '')
            try:
                f = DP.make_function(func, D)
                if reuse and (D, gk, box is None) in previous:
                    combi, op = previous[(D, gk, box is None)]
                    op.f = f
                else:
                    grid = mkgrid(gk, a, b)
                    op = Integration(f=f, grid=grid, dim=D, reference_solution=DP.reference(func, f, a, b))
                    combi = DimAdaptiveCombi(a, b, operation=op)
                if reuse and (D, gk, box is None) not in previous:
                    continue
                with impl.quiet(), impl.watchdog(240):
                    scheme, _, res, errors, nps = combi.perform_combi(1, 2, tol)
                previous[(D, gk, box is None)] = (combi, op)
                f2 = DP.make_function(func, D)
                ind = 0.0
                for g in scheme:
                    g2 = mkgrid(gk, a, b)
                    ind = ind + g.coefficient * np.atleast_1d(np.asarray(g2.integrate(f2, g.levelvector, a, b), dtype=float))
            except impl.Timeout:
                rep.exclude(name + ': timeout')
                continue
            except Exception as ex:
                rep.violation('C05_NoException', {'strategy': 'dimadaptive', 'exception': type(ex).__name__, 'reuse': reuse}, {'case': name, 'exception': repr(ex)}, what='%s raised %r' % (name, ex))
                continue
            ev = [{'k': 'E', 'eok': True, 'np': int(combi.get_total_num_points()), 'nonneg': True, 'err_true': True, 'np_true': True,
                   'res_comb': DP.close(res, ind), '_res': [float(x) for x in np.atleast_1d(res)], '_indep': [float(x) for x in np.atleast_1d(ind)]},
                  {'k': 'Ret', 'lens': [], 'final_comb': DP.close(res, ind), 'reeval_same': True, 'reeval_flag_same': True, 'pw_same': True}]
            out.append(DP.to_trace(c, {'tol': 1e9, 'min': 1, 'max': None}, ev, name + ' (%d grids)' % len(scheme)))
            rep.count(1, key=('dimadaptive', D, tol, func, str(box), gk, reuse))
    return out


def configs(tier):
    L = [dict(strategy='dimwise', D=2, lmin=1, lmax=2, func='cornerpeak'),
         dict(strategy='dimwise', D=2, lmin=1, lmax=2, func='vector', boundary=False, rebalancing=False),
         dict(strategy='extendsplit', D=2, lmin=1, lmax=2, func='cornerpeak'),
         dict(strategy='extendsplit', D=2, lmin=1, lmax=3, func='vector', boundary=False),
         dict(strategy='extendsplit', D=2, lmin=1, lmax=2, func='cornerpeak', grid='lagrange2', auto=True),
         dict(strategy='extendsplit', D=2, lmin=1, lmax=2, func='product', grid='clenshaw', auto=True),
         dict(strategy='extendsplit', D=2, lmin=1, lmax=2, func='cornerpeak', grid='simpson'),
         # periodic recalculation from scratch (recalculate_frequently) and the single_step option
         dict(strategy='extendsplit', D=2, lmin=1, lmax=2, func='cornerpeak', recalc=2),
         dict(strategy='extendsplit', D=2, lmin=1, lmax=2, func='vector', recalc=1, auto=True),
         dict(strategy='dimwise', D=2, lmin=1, lmax=2, func='cornerpeak', recalc=1),
         dict(strategy='extendsplit', D=2, lmin=1, lmax=2, func='product', single_step=True),
         dict(strategy='extendsplit', D=2, lmin=1, lmax=2, func='cornerpeak', single=True),      # split_single_dim
         dict(strategy='extendsplit', D=2, lmin=1, lmax=2, func='product', single=True, recalc=2, auto=True),
         dict(strategy='dimwise', D=2, lmin=1, lmax=2, func='vector', single_step=True)]
    if tier == 'thorough':
        L += [dict(strategy='dimwise', D=3, lmin=1, lmax=2, func='product'),
              dict(strategy='dimwise', D=2, lmin=1, lmax=3, func='product', version=8),
              dict(strategy='dimwise', D=2, lmin=2, lmax=3, func='cornerpeak', version=7, rebalancing=False),
              dict(strategy='extendsplit', D=3, lmin=1, lmax=2, func='cornerpeak'),
              dict(strategy='extendsplit', D=2, lmin=1, lmax=2, func='product', nrbe=2),
              dict(strategy='extendsplit', D=2, lmin=2, lmax=3, func='vector'),
              dict(strategy='extendsplit', D=2, lmin=1, lmax=2, func='cornerpeak', grid='gauss', auto=True),
              dict(strategy='extendsplit', D=3, lmin=1, lmax=2, func='cornerpeak', grid='lagrange2', auto=True),
              dict(strategy='extendsplit', D=2, lmin=1, lmax=3, func='vector', grid='clenshaw'),
              dict(strategy='extendsplit', D=3, lmin=1, lmax=2, func='cornerpeak', recalc=3),
              dict(strategy='extendsplit', D=2, lmin=1, lmax=3, func='product', recalc=1, nrbe=2),
              dict(strategy='extendsplit', D=2, lmin=1, lmax=2, func='cornerpeak', recalc=2, single_step=True),
              dict(strategy='dimwise', D=3, lmin=1, lmax=2, func='cornerpeak', recalc=2, single_step=True)]
    for c in L:
        c.setdefault('norm', np.inf)
    return L


class ModelFault(Exception):
    pass


def faulty_run(c, kfault, lims):
    """adaptive run whose integrand raises once when its kfault-th point is evaluated; the caller catches the exception and continues the
    refinement on the same object until the run returns"""
    S = DP.build(c)
    rec = DP.Recorder(S, lims['tol'], check_comb=True)
    f = S['f']
    state = {'n': 0, 'armed': True}
    oe, ov = f.eval, f.eval_vectorized

    def ev(x):
        state['n'] += 1
        if state['armed'] and state['n'] >= kfault:
            state['armed'] = False
            raise ModelFault('model evaluation %d failed' % state['n'])
        return oe(x)

    def evv(X):
        X2 = np.asarray(X)
        state['n'] += len(X2.reshape(-1, X2.shape[-1]))
        if state['armed'] and state['n'] >= kfault:
            state['armed'] = False
            raise ModelFault('model evaluation %d failed' % state['n'])
        return ov(X)
    f.eval, f.eval_vectorized = ev, evv
    started, ret, nfaults = False, None, 0
    with impl.quiet(), impl.watchdog(c.get('timeout', 240)):
        while ret is None:
            try:
                if not started:
                    started = True
                    ret = S['combi'].performSpatiallyAdaptiv(c['lmin'], c['lmax'], S['ec'], tol=lims['tol'], max_evaluations=lims['max'], min_evaluations=lims['min'], print_output=False)
                else:
                    ret = S['combi'].continue_adaptive_refinement(tol=lims['tol'], max_evaluations=lims['max'], min_evaluations=lims['min'])
            except ModelFault:
                nfaults += 1
                rec.skip_np = True      # (the point count of the aborted step is not comparable)
    return S, rec, ret, nfaults


def doubled(res, other):
    try:
        return DP.close(2 * np.asarray(res, dtype=float), np.asarray(other, dtype=float), 1e-9)
    except Exception:
        return False


def run(tier, seed):
    rep = Report(PROP, tier, seed, 'model_checking')
    rng = random.Random(seed)
    model_check(rep, tier)
    # dimension-adaptive loop: own model (DimAdaptive.tla) and trace specification (DimAdaptiveTrace.tla)
    from harness.drivers import dimadaptive_pipeline
    dimadaptive_pipeline.run_all(rep, tier, seed)
    traces = standard_traces(rep, tier)
    nstops = 3 if tier == 'quick' else 6
    for c in configs(tier):
        name = '%s D=%d (%d,%d) %s%s' % (c['strategy'], c['D'], c['lmin'], c['lmax'], c['func'], ''.join(' %s=%s' % (k, c[k]) for k in ('grid', 'auto', 'nrbe', 'version', 'recalc', 'single', 'single_step') if k in c))
        mx = 0
        for k in range(nstops):
            lims = {'tol': -1.0, 'min': 1, 'max': mx}
            try:
                S, rec, ret = DP.run_once(c, lims, checks=True)
                events = rec.events + [DP.ret_event(S, rec, ret, c, lims, with_c05=True)]
            except impl.Timeout:
                rep.exclude('%s stop %d: timeout' % (name, k))
                break
            except Exception as ex:
                rep.violation('C05_NoException', {'strategy': c['strategy'], 'exception': type(ex).__name__},
                              {'config': str(c), 'limits': lims, 'exception': repr(ex)}, what='%s stop %d raised %r' % (name, k, ex))
                break
            tr = DP.to_trace(c, lims, events, name + ' stop after %d evaluations' % (k + 1))
            r = events[-1]
            tr['_sig'] = {'reeval_doubles': doubled(r['_result'], r.get('_reeval')) if isinstance(r.get('_reeval'), list) else False,
                          'reeval_flag_doubles': doubled(r['_result'], r.get('_reeval_flag')) if isinstance(r.get('_reeval_flag'), list) else False}
            traces.append(tr)
            rep.count(1, key=(name, k))
            rep.sample({'config': name, 'stop_after_evaluations': k + 1, 'reported': r['_result'], 'independent_recombination_agrees': r['final_comb'],
                        'reevaluated': r.get('_reeval'), 'points_weights': r.get('_pw')}, limit=4)
            mx = [e['np'] for e in rec.events if e['k'] == 'E'][-1]
            if c['strategy'] == 'dimwise' and k >= 1:
                # the same instance is continued to a later stop and queried again (stale caches would show here)
                try:
                    n1 = len(rec.events)
                    with impl.quiet(), impl.watchdog(240):
                        ret2 = S['combi'].continue_adaptive_refinement(tol=-1.0, max_evaluations=mx, min_evaluations=1)
                    ev2 = DP.ret_event(S, rec, ret2, c, lims, with_c05=False)
                    ind = DP.independent_combination(S)
                    pw = DP.points_and_weights_value(S)
                    ev2['final_comb'] = DP.close(ret2[3], ind)
                    ev2['pw_same'] = DP.close(ret2[3], pw, 1e-10)
                    ev2['_pw'] = None if pw is None else [float(x) for x in pw]
                    events2 = events + [{'k': 'Resume', 'minE': 1, 'maxE': int(mx)}] + rec.events[n1:] + [ev2]
                    tr2 = DP.to_trace(c, lims, events2, name + ' stop after %d evaluations, then continued' % (k + 1))
                    tr2['_sig'] = tr['_sig']
                    traces.append(tr2)
                    rep.count(1, key=(name, k, 'continued'))
                except impl.Timeout:
                    rep.exclude('%s continued: timeout' % name)
            if k == nstops - 1:
                # a further, complete run on the SAME driver object (stale results / schemes of the first run would show here)
                try:
                    lims2 = {'tol': -1.0, 'min': 1, 'max': [e['np'] for e in rec.events if e['k'] == 'E'][0]}
                    first_obj, first_val = ret[3], np.array(ret[3], dtype=float, copy=True)
                    ret3 = DP.run_again(S, rec, c, lims2)
                    ev3 = DP.ret_event(S, rec, ret3, c, lims2, with_c05=False)
                    if not np.array_equal(np.asarray(first_obj, dtype=float), first_val):
                        # the value reported by the first run (the object handed to the caller) was overwritten by the second run
                        rep.violation('C05_FinalIsCombination', {'strategy': c['strategy'], 'event': 'Ret', 'second_run': True, 'reported_value_altered': True},
                                      {'config': str(c), 'reported_by_first_run': [float(x) for x in np.atleast_1d(first_val)], 'same_object_after_second_run': [float(x) for x in np.atleast_1d(np.asarray(first_obj, dtype=float))]},
                                      what='%s: the combined value reported by the first run was altered by a second run on the same driver object' % name)
                    ind = DP.independent_combination(S)
                    pw = DP.points_and_weights_value(S)
                    ev3['final_comb'] = DP.close(ret3[3], ind)
                    ev3['pw_same'] = DP.close(ret3[3], pw, 1e-10)
                    ev3['_pw'] = None if pw is None else [float(x) for x in pw]
                    tr3 = DP.to_trace(c, lims2, rec.events + [ev3], name + ' second run on the same driver object')
                    tr3['_sig'] = {'reeval_doubles': False, 'reeval_flag_doubles': False, 'second_run': True}
                    traces.append(tr3)
                    rep.count(1, key=(name, 'second run'))
                except impl.Timeout:
                    rep.exclude('%s second run: timeout' % name)
                except Exception as ex:
                    rep.violation('C05_NoException', {'strategy': c['strategy'], 'exception': type(ex).__name__, 'second_run': True},
                                  {'config': str(c), 'exception': repr(ex)}, what='%s second run on the same driver object raised %r' % (name, ex))
    # stops caused by the compute-time limit (the third stopping criterion): the reported value must be a combination there too
    for c in configs(tier)[: (4 if tier == 'quick' else 100)]:
        name = '%s D=%d (%d,%d) %s' % (c['strategy'], c['D'], c['lmin'], c['lmax'], c['func'])
        for mt in ((1e-9, 0.05) if tier == 'quick' else (1e-9, 0.02, 0.1, 0.4)):
            lims = {'tol': -1.0, 'min': 1, 'max': 3000}
            try:
                S, rec, ret = DP.run_once(c, lims, checks=True, max_time=mt)
                ev = DP.ret_event(S, rec, ret, c, lims, with_c05=False)
                ind = DP.independent_combination(S)
                pw = DP.points_and_weights_value(S)
                ev['final_comb'] = DP.close(ret[3], ind)
                ev['pw_same'] = DP.close(ret[3], pw, 1e-10)
                ev['_pw'] = None if pw is None else [float(x) for x in pw]
            except impl.Timeout:
                rep.exclude('%s max_time=%g: timeout' % (name, mt))
                continue
            except Exception as ex:
                rep.violation('C05_NoException', {'strategy': c['strategy'], 'exception': type(ex).__name__, 'max_time': True},
                              {'config': str(c), 'max_time': mt, 'exception': repr(ex)}, what='%s with max_time=%g raised %r' % (name, mt, ex))
                continue
            tr = DP.to_trace(c, lims, rec.events + [ev], name + ' stopped by max_time=%g after %d evaluations' % (mt, len([e for e in rec.events if e['k'] == 'E'])))
            tr['_sig'] = {'reeval_doubles': False, 'reeval_flag_doubles': False, 'max_time': True}
            traces.append(tr)
            rep.count(1, key=(name, 'max_time', mt))
    # a fault at a particular point: the user's model raises once in the middle of an evaluation step, the caller tries again on the same object
    # (continue_adaptive_refinement): at every later stop the reported value must still be the combination of the component results
    fault_cfgs = [dict(strategy='extendsplit', D=2, lmin=1, lmax=2, func='cornerpeak'), dict(strategy='extendsplit', D=2, lmin=1, lmax=2, func='vector', auto=True),
                  dict(strategy='dimwise', D=2, lmin=1, lmax=2, func='cornerpeak')]
    for c in fault_cfgs:
        c.setdefault('norm', np.inf)
        for kfault in ((40, 110) if tier == 'quick' else (5, 25, 40, 70, 110, 160, 240)):
            name = '%s D=%d (%d,%d) %s%s, model raises once at evaluation %d' % (c['strategy'], c['D'], c['lmin'], c['lmax'], c['func'], ' auto' if c.get('auto') else '', kfault)
            lims = {'tol': -1.0, 'min': 1, 'max': 130}
            try:
                S, rec, ret, nfaults = faulty_run(c, kfault, lims)
                ev = DP.ret_event(S, rec, ret, c, lims, with_c05=False)
                ind = DP.independent_combination(S)
                ev['final_comb'] = DP.close(ret[3], ind)
                pw = DP.points_and_weights_value(S)
                ev['pw_same'] = DP.close(ret[3], pw, 1e-10)
                ev['_pw'] = None if pw is None else [float(x) for x in pw]
            except impl.Timeout:
                rep.exclude(name + ': timeout')
                continue
            except Exception as ex:
                rep.violation('C05_NoException', {'strategy': c['strategy'], 'exception': type(ex).__name__, 'fault': True}, {'config': str(c), 'fault_at': kfault, 'exception': repr(ex)},
                              what='%s: continuing after the fault raised %r' % (name, ex))
                continue
            tr = DP.to_trace(c, lims, rec.events + [ev], name + ' (%d fault%s)' % (nfaults, '' if nfaults == 1 else 's'))
            tr['_sig'] = {'reeval_doubles': False, 'reeval_flag_doubles': False, 'fault': True}
            traces.append(tr)
            rep.count(1, key=(name,))
    from harness.drivers.c13_driver import conclude
    return conclude(rep, traces, ('C05_',))


def replay(path, seed):
    rep = Report(PROP, 'quick', seed, 'model_checking')
    with open(path) as f:
        r = json.load(f)['replay']
    c = r.get('config', {})
    if c.get('norm') == 'inf':
        c['norm'] = np.inf
    lims = r.get('limits')
    if 'case' in r and 'config' not in r:
        # dimension-adaptive loop (DimAdaptiveTrace.tla): the whole family is re-run, it is small
        from harness.drivers import dimadaptive_pipeline
        dimadaptive_pipeline.run_all(rep, 'quick', seed)
        rep.count(1, key='a')
        rep.count(1, key='b')
        return rep.finish()
    c = r['config']
    if c['strategy'] in ('standard', 'dimadaptive'):
        traces = [t for t in standard_traces(rep, 'thorough')]
    else:
        S, rec, ret = DP.run_once(c, lims, checks=True)
        events = rec.events + [DP.ret_event(S, rec, ret, c, lims, with_c05=True)]
        tr = DP.to_trace(c, lims, events, 'replay')
        rr = events[-1]
        tr['_sig'] = {'reeval_doubles': doubled(rr['_result'], rr.get('_reeval')) if isinstance(rr.get('_reeval'), list) else False,
                      'reeval_flag_doubles': doubled(rr['_result'], rr.get('_reeval_flag')) if isinstance(rr.get('_reeval_flag'), list) else False}
        traces = [tr]
    rep.count(1, key='a')
    rep.count(1, key='b')
    rep.sample({'replayed': path})
    from harness.drivers.c13_driver import conclude
    return conclude(rep, traces, ('C05_',))
