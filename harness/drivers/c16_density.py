"""C16 - density estimation solves the right linear system.

spec/HatSystems.tla enumerates tensor grids of 1-D refinement-tree grids (D = 1, 2), small data sets on the lattice (samples
on grid lines and on the domain boundary, class labels) and derives the exact Gram matrix, its diagonal and the right-hand
side as rationals; TLC checks symmetry and positivity of the quadratic form.  One implementation test per state x (lambda,
mass lumping): build_R_matrix_dimension_wise / calculate_B_dimension_wise (and the uniform-grid variants where the grid is
uniform), the three hat evaluators on all lattice points, and the normalisation of the returned surpluses."""
import itertools
import json
import random
from fractions import Fraction

import numpy as np

from harness.engine import impl, tlc
from harness.engine.report import Report

PROP = 'C16'
LAT = 8
MC_INV = ['C16_Symmetric', 'C16_MassPositive', 'C20_StiffSemiPositive']


def mc(rep, tier, tag):
    cfg = ('SPECIFICATION Spec\nCONSTANTS LAT = %d\n GRIDS <- %s\n DATASETS <- MCData\n MAXD = 2\n MAXPTS = 100000\n' % (LAT, 'MCGrids' if tier == 'quick' else 'MCGridsBig')
           + ''.join('INVARIANT %s\n' % i for i in MC_INV) + 'CHECK_DEADLOCK FALSE\n')
    r, g = tlc.run('MC_HatSystems', cfg, tag, dump=True, timeout=3000)
    rep.tlc('HatSystems ' + tier, r)
    if r.violated:
        raise tlc.TLCError('HatSystems.tla violates %s' % r.violated)
    out = [g.states[k] for k in sorted(g.states)]
    # three dimensions: uniform grids only (the band structure of the matrix changes with the dimension)
    cfg3 = ('SPECIFICATION Spec\nCONSTANTS LAT = %d\n GRIDS <- MCGrids3\n DATASETS <- MCData3\n MAXD = 3\n MAXPTS = 100000\n' % LAT
            + ''.join('INVARIANT %s\n' % i for i in MC_INV) + 'CHECK_DEADLOCK FALSE\n')
    r3, g3 = tlc.run('MC_HatSystems', cfg3, tag + 'd3', dump=True, timeout=3000)
    rep.tlc('HatSystems three dimensions', r3)
    if r3.violated:
        raise tlc.TLCError('HatSystems.tla violates %s (D=3)' % r3.violated)
    out += [g3.states[k] for k in sorted(g3.states) if g3.states[k]['dim'] == 3]
    return out


def fr(q):
    return Fraction(q[0], q[1])


def tree_levels(g):
    """dyadic refinement levels of the lattice positions (end points 0)"""
    out = []
    for p in g:
        if p == 0 or p == LAT:
            out.append(0)
        else:
            l, h = 1, LAT // 2
            while p % h != 0:
                h //= 2
                l += 1
            out.append(l)
    return out


def state_matrices(st):
    """spec matrices as {(p, q): Fraction} with p, q tuples of 1-based inner indices"""
    mass = {(tuple(k[0]), tuple(k[1])): fr(v) for k, v in st['mass'].items()}
    stiff = {(tuple(k[0]), tuple(k[1])): fr(v) for k, v in st['stiff'].items()}
    rhs = {tuple(k): fr(v) for k, v in st['rhs'].items()} if isinstance(st['rhs'], dict) else {(i + 1 + 1,): fr(v) for i, v in enumerate(st['rhs'])}
    return mass, stiff, rhs


def point_order(st):
    """order of the grid points as the library enumerates them (cross product of the inner coordinates, first dimension slowest)"""
    grids = [list(g) for g in st['grid']]
    idx = [list(range(2, len(g))) for g in grids]
    return list(itertools.product(*idx)), grids


def test_state(rep, st, tier, rng):
    from sparseSpACE.GridOperation import DensityEstimation
    from sparseSpACE.Grid import GlobalTrapezoidalGrid, TrapezoidalGrid
    from sparseSpACE.ComponentGridInfo import ComponentGridInfo
    D = st['dim']
    order, grids = point_order(st)
    mass, stiff, rhs = state_matrices(st)
    coords = [[p / LAT for p in g] for g in grids]
    levels = [tree_levels(g) for g in grids]
    data = np.array([[x / LAT for x in s] for s in st['data']], dtype=float).reshape(len(st['data']), D)
    labels = list(st['labels'])
    classes = None if all(y == 1 for y in labels) else np.array(labels, dtype=float)
    scale = Fraction(1, LAT) ** D
    case = {'dim': D, 'grid': grids, 'data': [list(s) for s in st['data']], 'labels': labels}
    n = len(order)

    def fail(clause, what, **kw):
        rep.violation(clause, dict({'dim': D}, **kw.pop('sig', {})), dict(case, **kw), what='grid %s data %s labels %s: %s' % (grids, case['data'], labels, what))
    G = np.array([[float(mass[(p, q)] * scale) for q in order] for p in order])
    b_exp = np.array([float(rhs[p]) for p in order])
    for lam, lump in ([(0.0, False), (0.01, False), (1.0, False), (0.0, True), (0.01, True)] if tier == 'thorough' else [(0.0, False), (0.01, False), (0.0, True)]):
        try:
            grid = GlobalTrapezoidalGrid(a=np.zeros(D), b=np.ones(D), boundary=False)
            op = DensityEstimation(data, D, grid=grid, masslumping=lump, lambd=lam, classes=classes, pre_scaled_data=True)
            op.max_levels = [0] * D
            with impl.quiet(), impl.watchdog(120):
                grid.set_grid(coords, levels)
                R = np.asarray(op.build_R_matrix_dimension_wise(coords, levels), dtype=float)
                b = np.asarray(op.calculate_B_dimension_wise(data, coords, levels), dtype=float)
        except impl.Timeout:
            rep.exclude('timeout on %s' % case)
            continue
        except Exception as ex:
            fail('C16_NoException', 'matrix assembly raised %r' % ex, exception=repr(ex), sig={'exception': type(ex).__name__, 'lumping': lump})
            continue
        rep.count(1, key=json.dumps(case) + str((lam, lump)))
        if lump:
            diag = np.diag(G)
            ok = R.shape == (n,) and (np.allclose(R, diag, rtol=1e-12, atol=1e-15) or np.allclose(R, diag + lam, rtol=1e-12, atol=1e-15))
            if not ok:
                fail('C16_LumpedIsGramDiagonal', 'lumped matrix %s differs from the Gram diagonal %s (lambda %s)' % (R, diag, lam), sig={'lumping': True})
        else:
            ok = R.shape == (n, n) and np.allclose(R, G + lam * np.eye(n), rtol=1e-12, atol=1e-15)
            if not ok:
                fail('C16_MatrixIsGramPlusLambda', 'system matrix differs from Gram + lambda I (max deviation %r)' % (float(np.max(np.abs(R - G - lam * np.eye(n)))) if R.shape == (n, n) else R.shape),
                     sig={'lumping': False, 'lambda_zero': lam == 0.0})
            elif not np.allclose(R, R.T):
                fail('C16_Symmetric', 'system matrix is not symmetric')
            else:
                try:
                    np.linalg.cholesky(R)
                except np.linalg.LinAlgError:
                    fail('C16_PositiveDefinite', 'system matrix is not positive definite')
        if not (b.shape == (n,) and np.allclose(b, b_exp, rtol=1e-12, atol=1e-15)):
            fail('C16_RhsIsSampleMean', 'right-hand side %s differs from the (signed) sample means %s' % (b, b_exp), sig={'with_classes': classes is not None})
        # solve + normalisation
        try:
            with impl.quiet(), impl.watchdog(120):
                grid.set_grid(coords, levels)
                alphas = np.asarray(op.solve_density_estimation_dimension_wise(coords, levels, ComponentGridInfo([1] * D, 1)), dtype=float)
                pts, w = grid.get_points_and_weights()
            w = np.asarray(w, dtype=float)
            pos = float(np.inner(alphas.clip(min=0.0), w) / np.sum(w))
            ok = abs(pos - 1.0) <= 1e-9 or pos == 0.0
            rep.residual('normalisation', ok)
            if not ok:
                fail('C16_Normalised', 'weighted mean of the positive parts of the surpluses is %r' % pos, sig={'lumping': lump})
        except impl.Timeout:
            rep.exclude('solve timeout on %s' % case)
        except Exception as ex:
            fail('C16_NoException', 'solve raised %r' % ex, exception=repr(ex), sig={'exception': type(ex).__name__, 'lumping': lump, 'stage': 'solve'})
    # the three hat evaluators on all lattice points (including cell boundaries and the domain boundary)
    try:
        grid = GlobalTrapezoidalGrid(a=np.zeros(D), b=np.ones(D), boundary=False)
        op = DensityEstimation(data, D, grid=grid, pre_scaled_data=True)
        with impl.quiet():
            grid.set_grid(coords, levels)
            points, lower, upper = op.get_hat_domain_for_every_grid_point_vectorized(coords)
        X = np.array(list(itertools.product(*[[k / LAT for k in range(LAT + 1)] for _ in range(D)])), dtype=float)
        with impl.quiet(), impl.watchdog(120):
            full = np.asarray(op.hat_function_non_symmetric_completely_vectorized(points, lower, upper, X), dtype=float)   # (len(X), n)
        exp = np.ones((len(X), n))
        for j, p in enumerate(order):
            for d in range(D):
                g = grids[d]
                i = p[d] - 1
                xl, xm, xr = g[i - 1] / LAT, g[i] / LAT, g[i + 1] / LAT
                v = np.where(X[:, d] <= xm, (X[:, d] - xl) / (xm - xl), (xr - X[:, d]) / (xr - xm))
                exp[:, j] *= np.clip(v, 0.0, None)
        if full.shape != exp.shape or not np.allclose(full, exp, rtol=1e-12, atol=1e-14):
            k = np.unravel_index(np.argmax(np.abs(full - exp)), exp.shape) if full.shape == exp.shape else None
            fail('C16_HatEvaluatorsAgree', 'completely vectorised hat values differ from the hat definition at lattice point %s' % (None if k is None else list(X[k[0]])), sig={'evaluator': 'completely_vectorized'})
        sample = rng.sample(range(len(X)), min(len(X), 12))
        for xi in sample:
            doms = [list(zip(lower[j], upper[j])) for j in range(n)]
            with impl.quiet():
                sc = np.array([op.hat_function_non_symmetric(list(points[j]), doms[j], list(X[xi])) for j in range(n)], dtype=float)
                vec = np.asarray(op.hat_function_non_symmetric_vectorized(points, [list(zip(lower[j], upper[j])) for j in range(n)], list(X[xi])), dtype=float) \
                    if hasattr(op, 'hat_function_non_symmetric_vectorized') else sc
            if not np.allclose(sc, exp[xi], rtol=1e-12, atol=1e-14):
                fail('C16_HatEvaluatorsAgree', 'scalar hat values differ from the hat definition at %s' % list(X[xi]), sig={'evaluator': 'scalar'})
                break
            # the vectorised evaluator is only used for hats whose (closed) support contains the evaluation point
            insup = np.array([all(lower[j][d] <= X[xi][d] <= upper[j][d] for d in range(D)) for j in range(n)])
            if vec.shape == sc.shape and not np.allclose(vec[insup], exp[xi][insup], rtol=1e-12, atol=1e-14):
                fail('C16_HatEvaluatorsAgree', 'vectorised hat values differ from the hat definition at %s' % list(X[xi]), sig={'evaluator': 'vectorized'})
                break
        rep.count(1, key='hats' + json.dumps(case['grid']))
    except impl.Timeout:
        rep.exclude('hat evaluation timeout')
    except Exception as ex:
        fail('C16_NoException', 'hat evaluation raised %r' % ex, exception=repr(ex), sig={'exception': type(ex).__name__, 'stage': 'hats'})
    # uniform grids: the level-vector based variants
    lv = []
    for g in grids:
        steps = {g[i + 1] - g[i] for i in range(len(g) - 1)}
        lv.append(int(np.log2(LAT // g[1])) if len(steps) == 1 else None)
    if all(l is not None and l >= 1 for l in lv):
        for lam, lump in [(0.0, False), (0.01, False), (0.0, True)]:
            try:
                grid = TrapezoidalGrid(a=np.zeros(D), b=np.ones(D), boundary=False)
                op = DensityEstimation(data, D, grid=grid, masslumping=lump, lambd=lam, classes=classes, pre_scaled_data=True)
                with impl.quiet(), impl.watchdog(120):
                    grid.setCurrentArea(np.zeros(D), np.ones(D), lv)
                    R = op.build_R_matrix(lv)
                    b = np.asarray(op.calculate_B(data, lv), dtype=float)
                    # the same operation object is asked for the same grid again (a combination repeated with another level range assembles the
                    # grids it shares with the first run a second time): nothing may have been changed by the first assembly
                    R_first, b_first = np.array(R, dtype=float, copy=True), np.array(b, dtype=float, copy=True)
                    R_again = np.asarray(op.build_R_matrix(lv), dtype=float)
                    b_again = np.asarray(op.calculate_B(data, lv), dtype=float)
            except Exception as ex:
                fail('C16_NoException', 'uniform-grid assembly raised %r' % ex, exception=repr(ex), sig={'exception': type(ex).__name__, 'uniform': True})
                continue
            if R_again.shape != R_first.shape or not np.allclose(R_again, R_first, rtol=1e-13, atol=1e-16) or not np.allclose(np.asarray(R, dtype=float), R_first, rtol=0, atol=0):
                fail('C16_MatrixIsGramPlusLambda', 'the second assembly of the same grid on the same operation object differs from the first (or changed the matrix handed out first)',
                     sig={'lumping': lump, 'uniform': True, 'second_assembly': True})
            if b_again.shape != b_first.shape or not np.allclose(b_again, b_first, rtol=1e-13, atol=1e-16):
                fail('C16_RhsIsSampleMean', 'the second right-hand side of the same grid on the same operation object differs from the first', sig={'uniform': True, 'second_assembly': True})
            rep.count(1, key='uniform' + json.dumps(case) + str((lam, lump)))
            if lump:
                if not (np.isscalar(R) or np.ndim(R) == 0) or not (abs(float(R) - G[0, 0]) <= 1e-14 or abs(float(R) - G[0, 0] - lam) <= 1e-14):
                    fail('C16_LumpedIsGramDiagonal', 'uniform lumped value %r differs from the Gram diagonal %r' % (R, G[0, 0]), sig={'lumping': True, 'uniform': True})
            elif not np.allclose(np.asarray(R, dtype=float), G + lam * np.eye(n), rtol=1e-12, atol=1e-15):
                fail('C16_MatrixIsGramPlusLambda', 'uniform-grid system matrix differs from Gram + lambda I', sig={'lumping': False, 'uniform': True})
            if not np.allclose(b, b_exp, rtol=1e-12, atol=1e-15):
                fail('C16_RhsIsSampleMean', 'uniform-grid right-hand side %s differs from %s' % (b, b_exp), sig={'uniform': True, 'with_classes': classes is not None})
    rep.sample({'grid': grids, 'data': case['data'], 'labels': labels, 'mass_diagonal': [str(mass[(p, p)]) for p in order][:6], 'rhs': [str(rhs[p]) for p in order][:6]}, limit=3)


def reuse_history(rep, states, tier, rng):
    """one DensityEstimation object with reuse_old_values=True driven through a sequence of grids (as the refinement does):
    every assembled matrix / right-hand side must still equal the spec values (cached entries must be the right ones)"""
    from sparseSpACE.GridOperation import DensityEstimation
    from sparseSpACE.Grid import GlobalTrapezoidalGrid
    groups = {}
    for st in states:
        groups.setdefault((st['dim'], json.dumps([list(x) for x in st['data']]), json.dumps(list(st['labels']))), []).append(st)
    partner = {}     # per dimension: an operation on OTHER data that stays alive and is driven in between (objects must not share cached entries)
    for (D, _, _), grp in groups.items():
        for lam, numeric in [(0.0, False), (0.01, False), (0.0, True)]:
            if numeric and tier == 'quick' and D > 1:
                continue      # numerical integration of the hat products (nquad) is slow in 2-d
            seq = list(grp)
            rng.shuffle(seq)
            seq = seq[:12 if tier == 'quick' else 40]
            st0 = seq[0]
            data = np.array([[x / LAT for x in smp] for smp in st0['data']], dtype=float).reshape(len(st0['data']), D)
            labels = list(st0['labels'])
            classes = None if all(y == 1 for y in labels) else np.array(labels, dtype=float)
            grid = GlobalTrapezoidalGrid(a=np.zeros(D), b=np.ones(D), boundary=False)
            op = DensityEstimation(data, D, grid=grid, masslumping=False, lambd=lam, classes=classes, pre_scaled_data=True, reuse_old_values=True,
                                   numeric_calculation=numeric)
            op.max_levels = [0] * D
            try:
                op.sorted_data = [np.argsort(data[:, d]) for d in range(D)]
            except Exception:
                pass
            for k, st in enumerate(seq):
                order, grids = point_order(st)
                mass, _, rhs = state_matrices(st)
                coords = [[p / LAT for p in g] for g in grids]
                levels = [tree_levels(g) for g in grids]
                scale = Fraction(1, LAT) ** D
                G = np.array([[float(mass[(p, q)] * scale) for q in order] for p in order])
                try:
                    with impl.quiet(), impl.watchdog(120):
                        if D in partner and partner[D][0] is not op:
                            pop, pdata, pgrid = partner[D]
                            pgrid.set_grid(coords, levels)
                            pop.build_R_matrix_dimension_wise(coords, levels)
                            pop.calculate_B_dimension_wise(pdata, coords, levels)
                            pop.old_B, pop.old_grid_coord = dict(pop.new_B), dict(pop.new_grid_coord)
                        grid.set_grid(coords, levels)
                        R = np.asarray(op.build_R_matrix_dimension_wise(coords, levels), dtype=float)
                        b = np.asarray(op.calculate_B_dimension_wise(data, coords, levels), dtype=float)
                        op.old_B, op.old_grid_coord = dict(op.new_B), dict(op.new_grid_coord)
                except impl.Timeout:
                    rep.exclude('reuse history timeout')
                    break
                except Exception as ex:
                    rep.violation('C16_NoException', {'dim': D, 'reuse': True, 'exception': type(ex).__name__}, {'grids': [point_order(s)[1] for s in seq[:k + 1]], 'exception': repr(ex)},
                                  what='reuse history step %d on grid %s raised %r' % (k, grids, ex))
                    break
                rep.count(1, key=('reuse', D, lam, numeric, json.dumps([point_order(s)[1] for s in seq[:k + 1]])))
                tol = 1e-12 if not numeric else 1e-9
                n = len(order)
                if R.shape != (n, n) or not np.allclose(R, G + lam * np.eye(n), rtol=tol, atol=tol * 1e-2):
                    rep.violation('C16_MatrixIsGramPlusLambda', {'dim': D, 'reuse': True, 'numeric': numeric},
                                  {'grid_history': [point_order(s)[1] for s in seq[:k + 1]], 'lambda': lam, 'max_deviation': float(np.max(np.abs(R - G - lam * np.eye(n)))) if R.shape == (n, n) else None},
                                  what='with reuse_old_values the matrix of grid %s (step %d of a grid sequence) differs from Gram + lambda I' % (grids, k))
                    break
                b_exp = np.array([float(rhs[p]) for p in order])
                if not np.allclose(b, b_exp, rtol=1e-12, atol=1e-15):
                    rep.violation('C16_RhsIsSampleMean', {'dim': D, 'reuse': True}, {'grid_history': [point_order(s)[1] for s in seq[:k + 1]]},
                                  what='with reuse_old_values the right-hand side of grid %s (step %d) differs from the sample means' % (grids, k))
                    break
            if not numeric:
                partner[D] = (op, data, grid)


def large_reuse(rep, tier, rng):
    """re-use of right-hand-side entries only happens on component grids with >= 200 points: a grid sequence as the dimension-wise
    refinement produces it (solve -> post_processing -> refined grid -> solve ...) on 15x15 and larger grids; every assembled right-hand side
    must still be the vector of sample means of the hats (computed here directly from the hat definition) and the matrix Gram + lambda I"""
    from sparseSpACE.GridOperation import DensityEstimation
    from sparseSpACE.Grid import GlobalTrapezoidalGrid
    from sparseSpACE.ComponentGridInfo import ComponentGridInfo

    def levels_of(coords):
        out = []
        for g in coords:
            lv = []
            for x in g:
                k = int(round(x * 64))
                if k in (0, 64):
                    lv.append(0)
                else:
                    t = 0
                    while k % 2 == 0:
                        k //= 2
                        t += 1
                    lv.append(6 - t)
            out.append(lv)
        return out

    def hat(x, l, c, r):
        x = np.asarray(x, dtype=float)
        return np.where(x <= c, np.clip((x - l) / (c - l), 0, None), np.clip((r - x) / (r - c), 0, None)) * ((x > l) & (x < r))
    base = [k / 16 for k in range(17)]
    seqs = [[(base, base), (sorted(set(base + [1 / 32, 3 / 32])), base), (sorted(set(base + [1 / 32, 3 / 32])), sorted(set(base + [31 / 32])))],
            [(base, base), (base, sorted(set(base + [17 / 32, 19 / 32]))), (sorted(set(base + [15 / 32])), sorted(set(base + [17 / 32, 19 / 32, 37 / 64])))]]
    # grid points MOVED between two steps while their neighbours stay (what rebalancing does, or one operation object used for another grid):
    # the new hat has the support of an old hat but another centre
    moved_x = sorted(set(base) - {8 / 16} | {17 / 32})
    moved_y = sorted(set(base) - {4 / 16} | {9 / 32})
    seqs.append([(base, base), (moved_x, sorted(set(base + [1 / 32]))), (moved_x, sorted(set(moved_y + [1 / 32]))), (base, base)])
    for si, seq in enumerate(seqs if tier == 'thorough' else [seqs[0], seqs[2]]):
        for lam, with_classes in ((0.0, False), (0.01, True)):
            r = np.random.RandomState(rng.randint(0, 10 ** 6))
            data = np.round(r.rand(40, 2) * 0.98 + 0.01, 6)
            data[:6] = [[k / 16, j / 32] for k, j in ((3, 5), (8, 16), (1, 1), (15, 31), (2, 3), (8, 17))]      # samples on grid lines
            classes = np.where(r.rand(40) < 0.5, 1.0, -1.0) if with_classes else None
            grid = GlobalTrapezoidalGrid(a=np.zeros(2), b=np.ones(2), boundary=False)
            op = DensityEstimation(data, 2, grid=grid, masslumping=False, lambd=lam, classes=classes, pre_scaled_data=True, reuse_old_values=True)
            op.max_levels = [0, 0]
            op.sorted_data = [np.argsort(data[:, d]) for d in range(2)]      # what the library's refinement-container initialisation sets up
            for k, (gx, gy) in enumerate(seq):
                coords = [list(gx), list(gy)]
                levels = levels_of(coords)
                case = {'sequence': si, 'step': k, 'lambda': lam, 'classes': with_classes, 'grid_sizes': [len(gx) - 2, len(gy) - 2]}
                try:
                    with impl.quiet(), impl.watchdog(300):
                        grid.set_grid(coords, levels)
                        alphas = op.solve_density_estimation_dimension_wise(coords, levels, ComponentGridInfo([max(l) for l in levels], 1))
                        b = np.array(op.new_B[str([max(l) for l in levels])], dtype=float)
                        op.surpluses = {tuple(max(l) for l in levels): alphas}      # as the component-grid evaluation of the library stores them
                        op.post_processing()
                except impl.Timeout:
                    rep.exclude('large reuse: timeout %s' % case)
                    break
                except Exception as ex:
                    rep.violation('C16_NoException', {'dim': 2, 'reuse': True, 'large': True, 'exception': type(ex).__name__}, dict(case, exception=repr(ex)), what='large-grid reuse %s raised %r' % (case, ex))
                    break
                sgn = np.ones(len(data)) if classes is None else classes
                exp = []
                for i in range(1, len(gx) - 1):
                    hx = hat(data[:, 0], gx[i - 1], gx[i], gx[i + 1])
                    for j in range(1, len(gy) - 1):
                        exp.append(float(np.sum(hx * hat(data[:, 1], gy[j - 1], gy[j], gy[j + 1]) * sgn) / len(data)))
                exp = np.array(exp)
                rep.count(1, key=('large-reuse', si, k, lam, with_classes))
                ok = b.shape == exp.shape and np.allclose(b, exp, rtol=1e-11, atol=1e-14)
                rep.residual('large_grid_reuse_rhs', bool(ok))
                if not ok:
                    rep.violation('C16_RhsIsSampleMean', {'dim': 2, 'reuse': True, 'large': True}, dict(case, max_deviation=float(np.max(np.abs(b - exp))) if b.shape == exp.shape else None),
                                  what='re-used right-hand side on a %dx%d grid (step %d of a refinement sequence) differs from the sample means of the hats' % (len(gx) - 2, len(gy) - 2, k))
                    break


def run(tier, seed):
    rep = Report(PROP, tier, seed, 'model_checking')
    rng = random.Random(seed)
    states = mc(rep, tier, 'c16')
    if tier == 'quick':
        states = [s for s in states if s['dim'] == 1] + rng.sample([s for s in states if s['dim'] == 2], 90) + [s for s in states if s['dim'] == 3]
    for st in states:
        test_state(rep, st, tier, rng)
    reuse_history(rep, states, tier, rng)
    large_reuse(rep, tier, rng)
    # uniform component grids on both sides of the 200-point threshold (two implementations of the right-hand side), data with samples exactly on
    # grid lines: the right-hand side is the sample mean of every hat on all of them
    from harness.drivers.c17_decache import uniform_rhs_paths
    uniform_rhs_paths(rep, tier, rng, clause='C16_RhsIsSampleMean', lvs=[(3, 3), (4, 4), (3, 5)] + ([(5, 3), (4, 5)] if tier == 'thorough' else []))
    rep.cov['spec_states_tested_on_impl'] = len(states)
    rep.cov['exhaustive'] = tier == 'thorough'
    rep.cov['rule'] = ('states of HatSystems.tla: tensor products (D=1,2) of refinement-tree grids on an 8-lattice x 5 data sets, uniform grids of levels 1-2 in three dimensions x 2 data sets, (grid-line and boundary samples, class labels) '
                       'x (lambda, lumping); quick: all 1-D states and a seeded sample of 90 2-D states; distinct by (grid, data, lambda, lumping)')
    rep.assumptions += ['TLC/SANY', 'float comparison 1e-12 with the spec rationals', 'unit cube, boundary points off (the default of DensityEstimation)']
    return rep.finish()


def replay(path, seed):
    print('re-run bin/check C16: the failing case is recorded in %s' % path)
    return run('quick', seed)
