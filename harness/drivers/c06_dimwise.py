"""C06 (dimension-wise strategy part): see dimwise_props.py / dimwise_pipeline.py."""
from harness.drivers import dimwise_props


def run(tier, seed):
    return dimwise_props.run_prop('C06', tier, seed)


def replay(path, seed):
    return dimwise_props.replay_prop('C06', path, seed)
