"""C15 - weighted UQ quadrature is a probability measure; moments transform correctly.

spec/TreeQuad.tla carries, for every refinement tree, the exact weighted trapezoidal weights for the uniform and the
symmetric triangle distribution (rationals; TLC checks non-negativity, sum 1, uniform = trapezoid / length, triangle mean).
One implementation test per tree x box x distribution against those rationals.  Residual clauses (harness, float): normal
distribution (finite truncation, infinite support), probability-halving midpoints, and the affine transformation identities of
expectation and variance on adaptively refined grids (model [f, c f + e, constant] evaluated as one vector-valued model)."""
import json
import math
import random
from fractions import Fraction

import numpy as np

from harness.engine import impl, tlc
from harness.engine.report import Report
from harness.drivers.c09_globalquad import mc, fr, LAT

PROP = 'C15'
OWNED = {}
BOXES = [(0.0, 1.0), (-2.0, 6.0), (1.5, 2.0)]


def distributions(kind, a, b):
    from sparseSpACE.GridOperation import UncertaintyQuantification
    from sparseSpACE.Function import ConstantValue
    if kind == 'uniform':
        info = ("Uniform",)
    elif kind == 'triangle':
        info = ("Triangle", float(0.5 * (a + b)))
    elif kind == 'normal':
        info = ("Normal", float(0.5 * (a + b)) if math.isfinite(a) else 0.2, float((b - a) / 6.0) if math.isfinite(a) else 1.0)
    op = UncertaintyQuantification(ConstantValue(1.0), [info], np.array([a]), np.array([b]))
    return op, op.get_distributions()[0]


def ref_cdf(kind, a, b, mu=None, sigma=None):
    """reference distribution function computed from the REQUESTED parameters (not from the library object)"""
    from scipy.stats import norm
    if kind == 'uniform':
        return lambda x: (x - a) / (b - a)
    if kind == 'triangle':
        c = 0.5 * (a + b)
        return lambda x: (x - a) ** 2 / ((b - a) * (c - a)) if x <= c else 1.0 - (b - x) ** 2 / ((b - a) * (b - c))
    return lambda x: float(norm.cdf(x, loc=mu, scale=sigma))


def test_tree(rep, st, tier):
    from sparseSpACE.Grid import GlobalTrapezoidalGridWeighted as GW
    pos = list(st['pos'])
    n = len(pos)
    wuni = [fr(q) for q in st['wuni']]
    wtri = [fr(q) for q in st['wtri']] if st['wtri'] else None
    w2 = list(st['w2'])
    for (a, b) in (BOXES if tier == 'thorough' else BOXES[:2]):
        xs = [a + (b - a) * p / LAT for p in pos]
        case = {'positions': pos, 'box': [a, b]}

        def fail(clause, what, **kw):
            rep.violation(clause, dict({'npoints': n}, **kw.pop('sig', {})), dict(case, **kw), what='tree %s on [%s,%s]: %s' % (pos, a, b, what))
        for kind, exp in (('uniform', wuni), ('triangle', wtri)):
            if exp is None:
                continue
            try:
                op, distr = distributions(kind, a, b)
                with impl.quiet(), impl.watchdog(60):
                    w = [float(v) for v in GW.compute_weights(list(xs), a, b, distr, True, False)]
                    wi = [float(v) for v in GW.compute_weights(list(xs), a, b, distr, False, False)] if n > 3 else None
            except impl.Timeout:
                rep.exclude('%s tree %s: timeout' % (kind, pos))
                continue
            except Exception as ex:
                fail('C15_NoException', '%s weights raised %r' % (kind, ex), exception=repr(ex), sig={'distribution': kind, 'exception': type(ex).__name__})
                continue
            rep.count(1, key=(kind, tuple(pos), a, b))
            tol = 1e-9 if kind == 'uniform' else 1e-7     # the code integrates the first moment numerically
            if not all(abs(x - float(y)) <= tol for x, y in zip(w, exp)):
                fail('C15_WeightsAreExactIntegrals', '%s weights %s differ from the exact weighted integrals %s' % (kind, w, [float(y) for y in exp]),
                     weights=w, expected=[str(y) for y in exp], sig={'distribution': kind, 'boundary': True})
            if any(v < 0 for v in w) or abs(sum(w) - 1.0) > 1e-9:
                fail('C15_ProbabilityMeasure', '%s weights: min %r sum %r' % (kind, min(w), sum(w)), sig={'distribution': kind, 'boundary': True})
            if kind == 'uniform':
                trap = [v * (b - a) / LAT / 2 / (b - a) for v in w2]
                if not all(abs(x - y) <= 1e-12 for x, y in zip(w, trap)):
                    fail('C15_UniformIsTrapezoid', 'uniform weights differ from trapezoid / (b - a)', sig={'distribution': kind, 'boundary': True})
            if wi is not None:
                # boundary off: the sum-to-one clause forces a renormalisation of the inner weights; compare up to that factor
                inner = [float(y) for y in exp][1:-1]
                s = sum(inner)
                ok = wi[0] == 0.0 and wi[-1] == 0.0 and abs(sum(wi) - 1.0) <= 1e-9 and all(v >= 0 for v in wi) and \
                    all(abs(x - y / s) <= max(tol, 1e-9) * 10 for x, y in zip(wi[1:-1], inner))
                if not ok:
                    fail('C15_ProbabilityMeasure', '%s weights without boundary points are not the renormalised inner weights (sum %r)' % (kind, sum(wi)),
                         weights=wi, sig={'distribution': kind, 'boundary': False})
        # normal distribution (residual, float): finite truncation and infinite support
        if (a, b) == BOXES[0]:
            for mode in ('normal-finite-boundary', 'normal-finite-inner', 'normal-infinite'):
                try:
                    if mode == 'normal-infinite':
                        op, distr = distributions('normal', -math.inf, math.inf)
                        gx = [-math.inf] + [float(distr.ppf(p / LAT)) for p in pos[1:-1]] + [math.inf]
                        lo, hi, bnd = -math.inf, math.inf, False
                    else:
                        lo, hi = -3.0, 3.0
                        op, distr = distributions('normal', lo, hi)       # mean 0, sigma 1: the box is +-3 sigma
                        gx = [lo + (hi - lo) * p / LAT for p in pos]
                        bnd = mode == 'normal-finite-boundary'
                    if n <= 3 and not bnd:
                        continue
                    with impl.quiet(), impl.watchdog(60):
                        w = [float(v) for v in GW.compute_weights(list(gx), lo, hi, distr, bnd, False)]
                except impl.Timeout:
                    rep.exclude('%s tree %s: timeout' % (mode, pos))
                    continue
                except Exception as ex:
                    fail('C15_NoException', '%s weights raised %r' % (mode, ex), exception=repr(ex), sig={'distribution': mode, 'exception': type(ex).__name__})
                    continue
                rep.count(1, key=(mode, tuple(pos)))
                ok = all(v >= 0 for v in w) and abs(sum(w) - 1.0) <= 1e-4     # the library integrates first moments with epsrel 1e-2 and asserts 1e-4 itself
                rep.residual('normal_probability_measure_' + mode, ok)
                if not ok:
                    fail('C15_ProbabilityMeasure', '%s weights: min %r sum %r' % (mode, min(w), sum(w)), weights=w,
                         sig={'distribution': mode, 'boundary': bnd, 'sum_is_box_mass': abs(sum(w) - float(distr.cdf(hi) - distr.cdf(lo))) <= 1e-6 if math.isfinite(lo) else False})
        # midpoints: strictly inside, equal probability on both sides
        for kind in ('uniform', 'triangle', 'normal'):
            op, distr = distributions(kind, a, b)
            for i in range(n - 1):
                x1, x2 = xs[i], xs[i + 1]
                try:
                    with impl.quiet():
                        m = GW.get_middle_weighted(x1, x2, distr.cdf, distr.ppf)
                except Exception as ex:
                    fail('C15_NoException', '%s midpoint raised %r' % (kind, ex), sig={'distribution': kind, 'exception': type(ex).__name__})
                    break
                cdf = ref_cdf(kind, a, b, 0.5 * (a + b), (b - a) / 6.0)
                pl, pr = float(cdf(m) - cdf(x1)), float(cdf(x2) - cdf(m))
                rep.count(1, key=('mid', kind, tuple(pos), i, a, b))
                if not (x1 < m < x2) or abs(pl - pr) > 1e-9 * max(1e-3, pl + pr):
                    fail('C15_MidpointHalvesProbability', '%s midpoint of [%r,%r] is %r (probabilities %r / %r)' % (kind, x1, x2, m, pl, pr), sig={'distribution': kind})
                    break
    rep.sample({'tree': pos, 'uniform_weights': [str(q) for q in wuni], 'triangle_weights': [str(q) for q in wtri] if wtri else None}, limit=3)


def multi_dim_midpoints(rep, tier):
    """one operation with several dimensions of different distribution parameters: every dimension must use its own"""
    from sparseSpACE.GridOperation import UncertaintyQuantification
    from sparseSpACE.Grid import GlobalTrapezoidalGridWeighted
    from sparseSpACE.Function import ConstantValue
    from scipy.stats import norm
    cases = [([("Normal", 0.0, 1.0), ("Normal", 2.0, 0.25)], None), ([("Normal", -1.0, 0.5), ("Normal", 0.3, 2.0), ("Normal", 4.0, 1.0)], None),
             ([("Uniform",), ("Normal", 1.0, 0.1)], None), ([("Triangle", 0.5), ("Normal", 0.0, 3.0), ("Uniform",)], None),
             # the same distribution description in several dimensions with DIFFERENT supports
             ([("Uniform",), ("Uniform",)], [(0.0, 1.0), (0.0, 2.0)]), ([("Uniform",), ("Uniform",)], [(-3.0, -1.0), (1.0, 4.0)]),
             ([("Triangle", 0.5), ("Triangle", 0.5)], [(0.0, 1.0), (-1.0, 2.0)]), ([("Uniform",), ("Triangle", 1.0), ("Uniform",)], [(0.0, 1.0), (0.0, 2.0), (0.0, 1.0)])]
    for info, bounds in cases:
        D = len(info)
        if bounds is None:
            bounds = [(-np.inf, np.inf) if k[0] == "Normal" else (0.0, 1.0) for k in info]
        a = np.array([lo for lo, _ in bounds])
        b = np.array([hi for _, hi in bounds])
        try:
            op = UncertaintyQuantification(ConstantValue(1.0), [tuple(k) for k in info], a, b)
            grid = GlobalTrapezoidalGridWeighted(a, b, op, boundary=False)
        except Exception as ex:
            rep.violation('C15_NoException', {'distribution': 'multi', 'exception': type(ex).__name__}, {'info': str(info), 'exception': repr(ex)}, what='%s raised %r' % (info, ex))
            continue
        for d, k in enumerate(info):
            if k[0] == "Normal":
                cdf = lambda x, _k=k: float(norm.cdf(x, loc=_k[1], scale=_k[2]))
                ivs = [(-np.inf, k[1]), (k[1], np.inf), (k[1] - k[2], k[1] + 2 * k[2]), (k[1] + k[2], k[1] + 3 * k[2])]
            else:
                lo, hi = bounds[d]
                cdf = ref_cdf(k[0].lower(), lo, hi)
                ivs = [(lo + (hi - lo) * u, lo + (hi - lo) * v) for u, v in ((0.0, 1.0), (0.0, 0.5), (0.25, 0.75), (0.5, 1.0))]
            for x1, x2 in ivs:
                with impl.quiet():
                    m = grid.get_mid_point(x1, x2, d)
                pl, pr = cdf(m) - cdf(x1), cdf(x2) - cdf(m)
                rep.count(1, key=('multimid', str(info), str(bounds), d, x1, x2))
                if not (x1 < m < x2) or abs(pl - pr) > 1e-8 * max(1e-3, pl + pr):
                    rep.violation('C15_MidpointHalvesProbability', {'distribution': k[0].lower(), 'multi_dim': True},
                                  {'info': str(info), 'bounds': str(bounds), 'dimension': d, 'interval': [x1, x2], 'midpoint': m, 'probabilities': [pl, pr]},
                                  what='operation %s dimension %d: midpoint of [%r,%r] is %r (probabilities %r / %r under the configured distribution)' % (info, d, x1, x2, m, pl, pr))
                    break


def multi_dim_weights(rep, tier, rng):
    """ONE weighted grid object serving several dimensions with different distributions: the weights it returns for dimension d must be
    the weights of d's distribution (= those of a fresh one-dimensional object), for identical point sets and bounds in all dimensions,
    in any query order and when asked repeatedly."""
    from sparseSpACE.GridOperation import UncertaintyQuantification
    from sparseSpACE.Grid import GlobalTrapezoidalGridWeighted as GW
    from sparseSpACE.Function import ConstantValue
    cases = [([("Triangle", 0.5), ("Uniform",)], [(0.0, 1.0), (0.0, 1.0)]), ([("Uniform",), ("Triangle", 0.25)], [(0.0, 1.0), (0.0, 1.0)]),
             ([("Triangle", 0.5), ("Triangle", 0.75), ("Uniform",)], [(0.0, 1.0)] * 3), ([("Uniform",), ("Triangle", 0.0)], [(-1.0, 2.0), (-1.0, 2.0)]),
             ([("Normal", 0.5, 0.2), ("Uniform",)], [(0.0, 1.0), (0.0, 1.0)]), ([("Uniform",), ("Uniform",)], [(0.0, 1.0), (0.0, 2.0)])]
    pointsets = [[0, 8, 16], [0, 4, 8, 16], [0, 4, 8, 12, 16], [0, 2, 4, 8, 16], [0, 8, 12, 14, 16], [0, 1, 2, 4, 8, 12, 16]]
    for info, bounds in cases:
        D = len(info)
        a = np.array([lo for lo, _ in bounds])
        b = np.array([hi for _, hi in bounds])
        for bnd in (True, False):
            try:
                with impl.quiet():
                    op = UncertaintyQuantification(ConstantValue(1.0), [tuple(k) for k in info], a, b)
                    grid = GW(a, b, op, boundary=bnd)
                    singles = []
                    for d in range(D):
                        op1 = UncertaintyQuantification(ConstantValue(1.0), [tuple(info[d])], np.array([a[d]]), np.array([b[d]]))
                        singles.append(op1.get_distributions()[0])
            except Exception as ex:
                rep.violation('C15_NoException', {'distribution': 'multi', 'exception': type(ex).__name__}, {'info': str(info), 'exception': repr(ex)}, what='%s raised %r' % (info, ex))
                continue
            for ps in (pointsets if tier == 'thorough' else pointsets[:4]):
                if not bnd and len(ps) <= 3:
                    continue
                order = list(range(D)) * 2
                rng.shuffle(order)
                for d in order:
                    xs = [float(a[d] + (b[d] - a[d]) * v / 16) for v in ps]
                    try:
                        with impl.quiet(), impl.watchdog(60):
                            own = OWNED.setdefault((str(info), str(bounds), bnd), [])      # a list the caller keeps and rewrites in place between the calls
                            own[:] = list(xs)
                            w = [float(v) for v in grid.compute_1D_quad_weights(own if len(ps) % 2 == 0 else list(xs), float(a[d]), float(b[d]), d)]
                            ref = [float(v) for v in GW.compute_weights(list(xs), float(a[d]), float(b[d]), singles[d], bnd, False)]
                    except impl.Timeout:
                        rep.exclude('multi-dimensional weights %s: timeout' % (info,))
                        continue
                    except Exception as ex:
                        rep.violation('C15_NoException', {'distribution': 'multi', 'exception': type(ex).__name__}, {'info': str(info), 'exception': repr(ex)}, what='weights of %s dimension %d raised %r' % (info, d, ex))
                        continue
                    rep.count(1, key=('multiw', str(info), str(bounds), bnd, tuple(ps), d))
                    kind = info[d][0].lower()
                    tol = 1e-9 if kind == 'uniform' else 1e-6
                    bad = len(w) != len(ref) or any(abs(x - y) > tol for x, y in zip(w, ref))
                    if kind == 'uniform' and bnd and not bad:
                        trap = [((xs[min(i + 1, len(xs) - 1)] - xs[max(i - 1, 0)]) / 2) / (b[d] - a[d]) for i in range(len(xs))]
                        bad = any(abs(x - y) > 1e-12 for x, y in zip(w, trap))
                    if bad:
                        rep.violation('C15_UniformIsTrapezoid' if kind == 'uniform' else 'C15_WeightsAreExactIntegrals', {'distribution': kind, 'multi_dim': True, 'boundary': bnd},
                                      {'info': str(info), 'bounds': str(bounds), 'dimension': d, 'points': xs, 'weights': w, 'weights_of_a_one_dimensional_object': ref, 'query_order': order},
                                      what='operation %s: weights of dimension %d (%s) on points %s are %s, a one-dimensional object of that distribution gives %s' % (info, d, kind, xs, w, ref))
                        break


def moment_runs(rep, tier, rng):
    """adaptive runs with the vector-valued model [f, c f + e, constant]; transformation identities on one and the same grid"""
    from sparseSpACE.GridOperation import UncertaintyQuantification
    from sparseSpACE.Grid import GlobalTrapezoidalGridWeighted
    from sparseSpACE.spatiallyAdaptiveSingleDimension2 import SpatiallyAdaptiveSingleDimensions2
    from sparseSpACE.ErrorCalculator import ErrorCalculatorSingleDimVolumeGuided
    from sparseSpACE.Function import Function
    cases = [('uniform', 2, [0.0, 0.0], [1.0, 2.0], True), ('triangle', 2, [-1.0, 0.0], [1.0, 1.0], True), ('normal-infinite', 2, [-np.inf] * 2, [np.inf] * 2, False),
             ('uniform', 2, [-3.0, 1.0], [-1.0, 4.0], True)]
    if tier == 'thorough':
        cases += [('uniform', 3, [0.0] * 3, [1.0] * 3, False), ('triangle', 2, [0.0, 0.0], [2.0, 1.0], False), ('normal-infinite', 3, [-np.inf] * 3, [np.inf] * 3, False)]
    for kind, D, a, b, bnd in cases:
        for (c, e) in ([(2.5, -1.0), (-3.0, 0.5)] if tier == 'quick' else [(2.5, -1.0), (-3.0, 0.5), (1e-3, 7.0), (40.0, 0.0)]):
            a_, b_ = np.array(a), np.array(b)

            class Model(Function):
                def output_length(self):
                    return 3

                def eval(self, x):
                    f = math.exp(-sum((xi - 0.3) ** 2 for xi in x)) + 0.3 * x[0]
                    return np.array([f, c * f + e, 4.25])
            if kind == 'uniform':
                info = [("Uniform",)] * D
            elif kind == 'triangle':
                info = [("Triangle", float(0.5 * (a[d] + b[d]))) for d in range(D)]
            else:
                info = [("Normal", 0.2, 1.0)] * D
            name = '%s D=%d boundary=%s c=%s e=%s' % (kind, D, bnd, c, e)
            try:
                op = UncertaintyQuantification(Model(), info, a_, b_)
                grid = GlobalTrapezoidalGridWeighted(a_, b_, op, boundary=bnd)
                op.set_grid(grid)
                op.set_expectation_variance_Function()
                combi = SpatiallyAdaptiveSingleDimensions2(a_, b_, operation=op, norm=2, grid_surplusses=grid)
                mx = 0
                for k in range(3 if tier == 'quick' else 5):
                    with impl.quiet(), impl.watchdog(300):
                        if k == 0:
                            combi.performSpatiallyAdaptiv(1, 2, ErrorCalculatorSingleDimVolumeGuided(), tol=0, max_evaluations=mx, print_output=False)
                        else:
                            combi.continue_adaptive_refinement(tol=0, max_evaluations=mx)
                        E, V = op.calculate_expectation_and_variance(combi)
                        E_, V_ = op.calculate_expectation_and_variance(combi)      # reading the moments out must not change them
                    mx = combi.get_total_num_points()
                    E, V = [float(x) for x in E], [float(x) for x in V]
                    # the second way the library offers to obtain the moments: from the exposed points and combined weights of the same grid
                    try:
                        with impl.quiet(), impl.watchdog(300):
                            E2, V2 = op.calculate_expectation_and_variance(combi, use_combiinstance_solution=False)
                        E2, V2 = [float(x) for x in np.atleast_1d(E2)], [float(x) for x in np.atleast_1d(V2)]
                        agree = len(E2) == 3 and all(abs(x - y) <= 1e-9 * max(1.0, abs(x)) for x, y in zip(E + V, E2 + V2))
                        aff2 = len(E2) == 3 and abs(E2[1] - (c * E2[0] + e)) <= 1e-9 * max(1.0, abs(E2[0]), abs(c * E2[0] + e)) \
                            and abs(V2[1] - c * c * V2[0]) <= 1e-8 * max(1.0, c * c * abs(V2[0]), e * e, abs(c * E2[0] + e) ** 2) and abs(E2[2] - 4.25) <= 1e-9 * 4.25
                        rep.residual('C15_PointsWeightsReadout', agree and aff2)
                        if not (agree and aff2):
                            rep.violation('C15_ExpectationAffine' if agree else 'C15_MomentsPathsAgree', {'distribution': kind, 'boundary': bnd, 'D': D, 'points_weights_readout': True},
                                          {'case': name, 'evaluation': k + 1, 'from_combined_solution': [E, V], 'from_points_and_weights': [E2, V2]},
                                          what='%s after %d evaluations: moments from points and weights %s differ from / do not transform like the combined moments %s' % (name, k + 1, [E2, V2], [E, V]))
                    except impl.Timeout:
                        raise
                    except Exception as ex:
                        rep.violation('C15_NoException', {'distribution': kind, 'boundary': bnd, 'exception': type(ex).__name__, 'points_weights_readout': True},
                                      {'case': name, 'exception': repr(ex)}, what='%s: moments from points and weights raised %r' % (name, ex))
                    same = all(abs(x - float(y)) <= 1e-12 * max(1.0, abs(x)) for x, y in zip(E + V, list(E_) + list(V_)))
                    rep.residual('C15_ReadoutRepeatable', same)
                    if not same:
                        rep.violation('C15_VarianceQuadratic', {'distribution': kind, 'boundary': bnd, 'D': D, 'second_readout': True},
                                      {'case': name, 'evaluation': k + 1, 'first': [E, V], 'second': [[float(x) for x in E_], [float(x) for x in V_]]},
                                      what='%s after %d evaluations: second read-out of expectation/variance differs: %s vs %s' % (name, k + 1, [E, V], [list(E_), list(V_)]))
                    rep.count(1, key=(name, k))
                    scale = max(1.0, abs(E[0]), abs(c * E[0] + e))
                    checks = {'C15_ExpectationAffine': abs(E[1] - (c * E[0] + e)) <= 1e-9 * scale,
                              'C15_VarianceQuadratic': abs(V[1] - c * c * V[0]) <= 1e-8 * max(1.0, c * c * abs(V[0]), abs(e) * abs(e), abs(c * E[0] + e) ** 2),
                              'C15_VarianceNonNegative': all(v >= 0 for v in V),
                              'C15_ConstantModel': abs(E[2] - 4.25) <= 1e-9 * 4.25 and abs(V[2]) <= 1e-8 * 4.25 ** 2}
                    for cl, ok in checks.items():
                        rep.residual(cl, ok)
                        if not ok:
                            rep.violation(cl, {'distribution': kind, 'boundary': bnd, 'D': D}, {'case': name, 'evaluation': k + 1, 'E': E, 'Var': V, 'c': c, 'e': e},
                                          what='%s after %d evaluations: E=%s Var=%s' % (name, k + 1, E, V))
            except impl.Timeout:
                rep.exclude('%s: timeout' % name)
            except Exception as ex:
                rep.violation('C15_NoException', {'distribution': kind, 'boundary': bnd, 'exception': type(ex).__name__}, {'case': name, 'exception': repr(ex)},
                              what='%s raised %r' % (name, ex))


def run(tier, seed):
    rep = Report(PROP, tier, seed, 'model_checking')
    rng = random.Random(seed)
    g = mc(rep, tier, 'c15')
    for sid in sorted(g.states):
        test_tree(rep, g.states[sid], tier)
    rep.cov['spec_states_tested_on_impl'] = len(g.states)
    multi_dim_midpoints(rep, tier)
    multi_dim_weights(rep, tier, rng)
    moment_runs(rep, tier, rng)
    rep.cov['exhaustive'] = True
    rep.cov['rule'] = ('every refinement tree of TreeQuad.tla x boxes x {uniform, triangle} (weights against spec rationals) and x {uniform, triangle, normal} '
                       '(midpoints); adaptive runs with model [f, c f + e, const] for uniform / triangle / normal with infinite support; distinct by (tree, box, distribution) / (run, evaluation)')
    rep.assumptions += ['TLC/SANY', 'triangle first moments are integrated numerically by the library: tolerance 1e-7 against the exact rationals',
                        'moment identities 1e-9 / 1e-8 relative']
    return rep.finish()


def replay(path, seed):
    print('re-run bin/check C15: the failing case is recorded in %s' % path)
    return run('quick', seed)
