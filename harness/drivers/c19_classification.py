"""C19 - classification assigns the arg-max density class under the learning scaling.

spec/Classification.tla (bookkeeping of evaluate / test calls: prefix stability, unlabelled samples set aside, summary
arithmetic) is model-checked by TLC; real classifiers are learned (2-3 classes, split percentage, even/uneven split, standard
and dimension-wise learning) and driven through scripted call sequences with data inside / partly outside / entirely outside the
learned range and unlabelled samples; every call is recorded (range membership in exact rational arithmetic from the REQUESTED
data and the learned range, per-class densities obtained independently from the stored density estimators and converted to
ranks) and validated by TLC against spec/ClassificationTrace.tla."""
import json
import random
from fractions import Fraction

import numpy as np

from harness.engine import impl, tlc
from harness.engine.report import Report

PROP = 'C19'


def make_learning_data(rng, ncls, n, D=2):
    r = np.random.RandomState(rng.randint(0, 10 ** 6))
    centers = [(0.0, 0.0), (2.0, 1.0), (0.5, 2.5)][:ncls]
    X, y = [], []
    for c, ctr in enumerate(centers):
        k = n // ncls + (1 if c < n % ncls else 0)
        X.append(r.normal(ctr[:D], 0.5, (k, D)))
        y += [c] * k
    X = np.vstack(X)
    y = np.array(y, dtype=np.int64)
    p = r.permutation(len(y))
    return X[p], y[p]


def densities(clf, scaled_points):
    """per-class densities of the stored estimators at points given in the learning scaling"""
    combis, _ = clf.get_density_estimation_results()
    pts = [tuple(float(v) for v in p) for p in scaled_points]
    out = []
    for c in combis:
        with impl.quiet():
            out.append(np.asarray(c(pts), dtype=float).flatten())
    return np.array(out).T      # (npoints, nclasses)


def _hats_1d(coords, x):
    """values of all inner piecewise-linear hats of the 1-d grid coords (sorted, including both domain end points) at the points x"""
    c = np.asarray(coords, dtype=float)
    x = np.asarray(x, dtype=float)[:, None]
    mid, left, right = c[1:-1][None, :], c[:-2][None, :], c[2:][None, :]
    up = (x - left) / (mid - left)
    down = (right - x) / (right - mid)
    return np.clip(np.minimum(up, down), 0.0, None)


def independent_densities(clf, scaled_points):
    """per-class densities at points of the learning scaling, evaluated by the harness from the surpluses the estimators hold:
    sum over component grids of coefficient * sum_i surplus_i * hat_i(x) with its own hat functions (uniform grids of the standard
    combination, the one-dimensional point lists of the refined grids otherwise).  Independent of the library's interpolation code."""
    combis, _ = clf.get_density_estimation_results()
    P = np.asarray([[float(v) for v in p] for p in scaled_points], dtype=float)
    out = []
    for c in combis:
        op = c.operation
        D = P.shape[1]
        total = np.zeros(len(P))
        for g in c.scheme:
            lv = tuple(int(v) for v in g.levelvector)
            alpha = np.asarray(op.surpluses[lv], dtype=float).reshape(-1)
            if hasattr(c, 'get_point_coord_for_each_dim'):
                with impl.quiet():
                    coords = [sorted(set([0.0, 1.0] + [float(v) for v in cd])) for cd in c.get_point_coord_for_each_dim(list(lv))[0]]
            else:
                coords = [[k / 2 ** l for k in range(2 ** l + 1)] for l in lv]
            H = [_hats_1d(coords[d], P[:, d]) for d in range(D)]
            shape = [h.shape[1] for h in H]
            if int(np.prod(shape)) != alpha.size:
                raise RuntimeError('surpluses of grid %s: %d values for %s hats' % (lv, alpha.size, shape))
            A = alpha.reshape(shape)
            val = A
            # contract dimension by dimension (last dimension runs fastest in the library's ordering = row-major)
            if D == 1:
                v = H[0] @ A
            elif D == 2:
                v = np.einsum('pi,pj,ij->p', H[0], H[1], A)
            else:
                v = np.einsum('pi,pj,pk,ijk->p', H[0], H[1], H[2], A)
            total += float(g.coefficient) * v
        out.append(total)
    return np.array(out).T


def ranks(dens):
    out = []
    for row in dens:
        order = sorted(set(np.round(row, 12)))
        # values closer than 1e-9 relative are numerical ties: same rank
        rk, groups = [], []
        for v in row:
            for gi, g in enumerate(groups):
                if abs(v - g) <= 1e-9 * max(1.0, abs(g)):
                    break
            else:
                groups.append(v)
        groups.sort()
        for v in row:
            rk.append(min(i for i, g in enumerate(groups) if abs(v - g) <= 1e-9 * max(1.0, abs(g))))
        out.append([int(x) for x in rk])
    return out


def learn(cfg, rng):
    from sparseSpACE.DEMachineLearning import DataSet, Classification
    X, y = make_learning_data(rng, cfg['ncls'], cfg['n'])
    if cfg.get('symmetric'):
        # learned range exactly [-1, 1]^2: the value 0.0 is then exactly the middle of the learning scaling (a grid line of every component grid)
        X = np.clip(X - 1.0, -1.0, 1.0)
        X = np.vstack([X, [[-1.0, -1.0], [1.0, 1.0], [-1.0, 1.0], [1.0, -1.0]]])
        y = np.concatenate([y, [0, 1, 0, 1]]).astype(np.int64)
    if cfg.get('scale'):
        # features of very small / very large magnitude: every clause is about positions relative to the learned range
        X = X * float(cfg['scale'])
    if cfg.get('unlabelled'):
        y = y.copy()
        y[rng.sample(range(len(y)), 4)] = -1
    ds = DataSet((np.array(X), np.array(y)), name='learn')
    dr = None
    if cfg.get('range'):
        # user-given learning range: wider than the data on one side, cutting into the data on the other
        dr = (X.min(axis=0) - 0.5 * float(cfg.get('scale', 1.0)), X.max(axis=0) - np.array([0.3, 0.0]) * float(cfg.get('scale', 1.0)))
    with impl.quiet(), impl.watchdog(600):
        clf = Classification(ds, data_range=dr, split_percentage=cfg['split'], split_evenly=cfg['even'], shuffle_data=cfg.get('shuffle', False))
        if cfg['dimwise']:
            clf.perform_classification_dimension_wise(masslumping=cfg['lump'], lambd=cfg['lam'], minimum_level=1, maximum_level=3, max_evaluations=60, print_metrics=False)
        else:
            clf.perform_classification(masslumping=cfg['lump'], lambd=cfg['lam'], minimum_level=1, maximum_level=cfg.get('lmax', 3), one_vs_others=cfg.get('ovo', False), print_metrics=False)
    lo, hi = clf.get_dataset_range() if dr is None else dr      # a requested range is taken from the request, not from the object
    return clf, np.asarray(lo, dtype=float), np.asarray(hi, dtype=float), X, y


def scaled_exact(x, lo, hi):
    """position in the learning scaling (data range -> [0.005, 0.995]) in exact rational arithmetic"""
    return [Fraction(5, 1000) + (Fraction(float(v)) - Fraction(float(a))) * Fraction(99, 100) / (Fraction(float(b)) - Fraction(float(a))) for v, a, b in zip(x, lo, hi)]


def make_batch(rng, kind, lo, hi, ncls, n):
    D = len(lo)
    r = np.random.RandomState(rng.randint(0, 10 ** 6))
    span = hi - lo
    inside = lo + span * (0.02 + 0.96 * r.rand(n, D))
    far = lo + span * (1.2 + r.rand(n, D))
    below_one = inside.copy()
    below_one[:, 0] = lo[0] - span[0] * (0.05 + 0.5 * r.rand(n))          # outside in one dimension only
    if kind == 'gridline':
        # samples with a coordinate exactly in the middle of the learned range, or on the range ends
        X = inside.copy()
        mid = lo + span * 0.5
        for i in range(n):
            d = r.randint(0, D)
            X[i, d] = mid[d] if r.rand() < 0.8 else (lo[d] if r.rand() < 0.5 else hi[d])
            if r.rand() < 0.25:
                X[i, :] = mid
    elif kind == 'inside':
        X = inside
    elif kind == 'outside':
        X = np.vstack([far[: n // 2], below_one[: n - n // 2]])
    else:
        pick = r.rand(n)
        X = np.where((pick < 0.5)[:, None], inside, np.where((pick < 0.75)[:, None], far, below_one))
    y = r.randint(0, ncls, n).astype(np.int64)
    if kind != 'labelled-only' and rng.random() < 0.6:
        y[r.rand(n) < 0.3] = -1
    return X, y


def record_call(clf, kind, X, y, lo, hi, classes_before, share=False, X_asgiven=None, mutate_after=False):
    """share=True: the DataSet is built around the caller's arrays themselves (no copy); the expected outcome is always computed from
    the values the caller handed over"""
    from sparseSpACE.DEMachineLearning import DataSet
    # X_asgiven: the values the caller put into the array (an earlier call on the same array must not have changed them)
    X0 = np.array(X if X_asgiven is None else X_asgiven, dtype=float, copy=True)
    sc = [scaled_exact(x, lo, hi) for x in X0]
    inside = [all(Fraction(5, 1000) <= v <= Fraction(995, 1000) for v in s) for s in sc]
    scf = np.array([[float(v) for v in s] for s in sc])
    dens = independent_densities(clf, np.clip(scf, 0.0, 1.0)) if len(X) else np.zeros((0, 1))
    e = {'k': kind, 'inside': [bool(b) for b in inside], 'labelsin': [int(v) for v in y], 'ranks': ranks(dens), 'raised': False,
         'returned': [], 'nreturned': 0, 'summary': [0, 0], '_X': X0.tolist(), '_dens': dens.tolist(), '_shared_arrays': share}
    ds = DataSet((X, y) if share else (np.array(X), np.array(y)), name='batch')
    try:
        with impl.quiet(), impl.watchdog(300):
            if kind == 'call':
                out = clf(ds, print_removed=False)
                e['returned'] = [int(v) for v in np.asarray(out.get_data()[1]).tolist()]
                e['nreturned'] = int(out.get_length())
            else:
                res = clf.test_data(ds, print_output=False, print_removed=False)
                e['summary'] = [int(res['Wrong mappings']), int(res['Total mappings'])]
                e['_pct'] = float(res['Percentage correct'])
    except impl.Timeout:
        raise
    except Exception as ex:
        e['raised'] = True
        e['_exc'] = '%s: %s' % (type(ex).__name__, ex)
    e['classes'] = [int(v) for v in np.asarray(clf.get_calculated_classes_testset()).tolist()]
    if mutate_after and not ds.is_empty():
        # the caller goes on using ITS data set object after the call (drops the labels, moves the samples): what the classifier stored at the
        # time of the call must not follow
        try:
            with impl.quiet():
                ds.remove_labels(1.0)
                ds.shift_value(1.0, override_scaling=True)
        except Exception:
            pass
    return e


def run(tier, seed):
    rep = Report(PROP, tier, seed, 'model_checking')
    rng = random.Random(seed)
    cfg = ('SPECIFICATION Spec\nCONSTANTS SAMPLES = {}\n BATCHES <- MCBatches\n MAXSTEPS = %d\nINVARIANT C19_Aligned\nINVARIANT C19_SummaryConsistent\n'
           'PROPERTY C19_EarlierClassesStable\nCHECK_DEADLOCK FALSE\n' % (4 if tier == 'quick' else 5))
    r, _ = tlc.run('MC_Classification', cfg, 'c19', timeout=1200)
    rep.tlc('Classification', r)
    if r.violated:
        raise tlc.TLCError('Classification.tla violates %s' % r.violated)
    for act in ('Evaluate', 'TestData'):
        if r.action_counts.get(act, (0, 0))[1] == 0:
            raise tlc.TLCError('vacuous: %s never taken' % act)
    cfgs = [dict(ncls=2, n=60, split=0.8, even=True, dimwise=False, lump=True, lam=0.0),
            dict(ncls=3, n=75, split=0.7, even=False, dimwise=False, lump=False, lam=0.01),
            dict(ncls=2, n=60, split=0.8, even=True, dimwise=True, lump=True, lam=0.0),
            dict(ncls=2, n=50, split=1.0, even=True, dimwise=False, lump=True, lam=0.0, unlabelled=True),
            dict(ncls=2, n=60, split=0.7, even=False, dimwise=False, lump=True, lam=0.0, range=True),
            # the whole data set is used for learning (constructor default): the stored test set is empty before the first test call
            dict(ncls=2, n=50, split=1.0, even=True, dimwise=False, lump=True, lam=0.0, nseq=3, first_labelled_test=True),
            # features of very small and very large magnitude
            dict(ncls=2, n=60, split=0.8, even=True, dimwise=False, lump=True, lam=0.0, scale=1e-4, nseq=3),
            dict(ncls=2, n=60, split=0.8, even=False, dimwise=False, lump=True, lam=0.0, scale=1e4, range=True, nseq=2),
            # fine component grids (>= 200 points: the point-by-point evaluation path) and samples exactly on grid lines
            dict(ncls=2, n=80, split=0.8, even=True, dimwise=False, lump=True, lam=0.0, lmax=7, symmetric=True, nseq=2)]
    if tier == 'thorough':
        cfgs += [dict(ncls=3, n=90, split=0.6, even=True, dimwise=True, lump=False, lam=0.01),
                 dict(ncls=2, n=80, split=0.5, even=False, dimwise=False, lump=True, lam=0.0, shuffle=True),
                 dict(ncls=3, n=60, split=0.9, even=True, dimwise=False, lump=True, lam=0.1, lmax=4),
                 dict(ncls=2, n=40, split=0.75, even=False, dimwise=True, lump=True, lam=0.0, unlabelled=True),
                 dict(ncls=3, n=75, split=0.8, even=True, dimwise=False, lump=True, lam=0.0, ovo=True),
                 dict(ncls=3, n=75, split=0.8, even=True, dimwise=True, lump=True, lam=0.0, range=True)]
    traces = []
    nseq = 5 if tier == 'quick' else 15
    partner = None      # a second classifier (learned for the previous case) stays alive and is used in between: objects must not share state
    for c in cfgs:
        for s in range(c.get('nseq', nseq)):
            try:
                clf, lo, hi, LX, Ly = learn(c, rng)
            except impl.Timeout:
                rep.exclude('learning %s timed out' % c)
                break
            except Exception as ex:
                rep.violation('C19_NoException', {'stage': 'learn', 'exception': type(ex).__name__}, {'config': c, 'exception': repr(ex)}, what='learning %s raised %r' % (c, ex))
                break
            from sparseSpACE.DEMachineLearning import DataSet
            test0 = clf.get_testing_data()
            cls0 = [int(v) for v in np.asarray(clf.get_calculated_classes_testset()).tolist()]
            lab0 = [int(v) for v in np.asarray(test0.get_data()[1]).tolist()] if not test0.is_empty() else []
            d0 = independent_densities(clf, np.asarray(test0.get_data()[0], dtype=float)) if cls0 else np.zeros((0, c['ncls']))
            evs = [{'k': 'learn', 'classes': cls0, 'labels': lab0, 'ranks': ranks(d0)}]
            script = []
            prev_xy, bk_prev = None, None
            for step in range(rng.randint(3, 5)):
                kind = rng.choice(['call', 'test', 'test', 'call'])
                bk = rng.choice(['inside', 'mixed', 'mixed', 'outside', 'labelled-only'] + (['gridline'] * 6 if c.get('symmetric') else []))
                share = False
                force_mutate = False
                if step == 0 and c.get('first_labelled_test'):
                    # the first data the classifier stores is a fully labelled test set, and the caller goes on using that data set object
                    kind, bk, force_mutate = 'test', 'labelled-only', True
                if step > 0 and prev_xy is not None and rng.random() < 0.35:
                    # the caller hands over the very arrays it used for the previous call (a DataSet is built around them again)
                    X, y, X_asgiven = prev_xy
                    share = True
                    bk = bk_prev + '/same-arrays'
                else:
                    X, y = make_batch(rng, bk, lo, hi, c['ncls'], rng.randint(3, 8) if bk != 'gridline' else 24)
                    X_asgiven = None
                    share = rng.random() < 0.5 and not force_mutate
                    if share:
                        X, y = np.ascontiguousarray(X, dtype=np.float64), np.ascontiguousarray(y, dtype=np.int64)
                if share and X_asgiven is None:
                    X_asgiven = np.array(X, copy=True)
                prev_xy, bk_prev = ((X, y, X_asgiven), bk.split('/')[0]) if share else (None, None)
                if partner is not None and rng.random() < 0.5:
                    pclf, plo, phi, pn = partner
                    try:
                        PX, Py = make_batch(rng, 'mixed', plo, phi, pn, 5)
                        with impl.quiet(), impl.watchdog(120):
                            (pclf.test_data if rng.random() < 0.5 else pclf)(DataSet((np.array(PX), np.array(Py)), name='partner'), print_removed=False)
                    except impl.Timeout:
                        raise
                    except Exception:
                        pass      # the partner's own behaviour is judged in its own trace
                e = record_call(clf, kind, X, y, lo, hi, None, share=share, X_asgiven=X_asgiven if share else None, mutate_after=(not share and (force_mutate or rng.random() < 0.5)))
                evs.append(e)
                script.append([kind, bk])
            if c['dimwise'] and s % 2 == 0:
                # the refinement is continued with a larger budget: the stored test set must be classified by the arg-max of the REFINED densities
                rl = {'k': 'relearn', 'raised': False, 'classes': [], 'ranks': []}
                try:
                    with impl.quiet(), impl.watchdog(600):
                        clf.continue_dimension_wise_refinement(tolerance=0.0, max_evaluations=110, min_evaluations=1)
                    tdr = clf.get_testing_data()
                    rl['classes'] = [int(v) for v in np.asarray(clf.get_calculated_classes_testset()).tolist()]
                    rl['ranks'] = ranks(independent_densities(clf, np.asarray(tdr.get_data()[0], dtype=float))) if rl['classes'] else []
                except impl.Timeout:
                    raise
                except Exception as ex:
                    rl['raised'] = True
                    rl['_exc'] = '%s: %s' % (type(ex).__name__, ex)
                evs.append(rl)
                script.append(['relearn', 'continue_dimension_wise_refinement'])
            ev = {'k': 'evaluate', 'raised': False, 'summary': [0, 0], 'labels': []}
            try:
                with impl.quiet():
                    res = clf.evaluate()
                ev['summary'] = [int(res['Wrong mappings']), int(res['Total mappings'])]
            except Exception as ex:
                ev['raised'] = True
                ev['_exc'] = '%s: %s' % (type(ex).__name__, ex)
            td = clf.get_testing_data()
            ev['labels'] = [int(v) for v in np.asarray(td.get_data()[1]).tolist()] if not td.is_empty() else []
            evs.append(ev)
            for i, e in enumerate(evs):
                tot = e.get('summary', [0, 0])[1]
                pct = e.get('_pct', res.get('Percentage correct') if e['k'] == 'evaluate' and not e.get('raised') else None)
                if pct is not None and tot > 0 and abs(pct - (1.0 - e['summary'][0] / tot)) > 1e-12:
                    rep.violation('C19_SummaryConsistent', {'field': 'percentage', 'event': e['k']}, {'config': c, 'calls': script, 'failing_event': i + 1, 'summary': e['summary'], 'percentage': pct},
                                  what='%s: percentage %r does not match wrong/total %s' % (c, pct, e['summary']))
            traces.append({'events': evs, '_cfg': c, '_script': script})
            partner = (clf, lo, hi, c['ncls'])
            rep.count(1, key=json.dumps([c, script, s]))
            rep.sample({'config': c, 'calls': script, 'learned_range': [lo.tolist(), hi.tolist()]}, limit=3)
    clean = [{'events': [{k: v for k, v in e.items() if not k.startswith('_')} for e in t['events']]} for t in traces]
    verdicts, st, trn = tlc.validate_traces('ClassificationTrace', clean, 'c19', chunk=200, unevaluable='C19_SpecEvaluable')
    rep.cov['states'] += st
    rep.cov['transitions'] += trn
    rep.cov['traces_validated_against_impl'] += len(traces)
    for tr, v in zip(traces, verdicts):
        for step, clause in v:
            e = tr['events'][step - 1]
            before = [x['k'] for x in tr['events'][1:step - 1]]
            sig = {'event': e['k'], 'exception': e.get('_exc', '').split(':')[0], 'after_test_data': 'test' in before}
            rep.violation(clause, sig, {'config': tr['_cfg'], 'calls': tr['_script'], 'failing_event': step, 'event': {k: v for k, v in e.items() if k != '_dens'}},
                          what='%s at event %d (%s) of calls %s %s' % (tr['_cfg'], step, e['k'], tr['_script'], e.get('_exc', '')))
    rep.cov['rule'] = ('one trace per (learning configuration, scripted sequence of 3-5 evaluate / test calls with inside / mixed / outside / labelled-only batches) followed by '
                       'evaluate(); distinct by (configuration, script)')
    rep.assumptions += ['TLC/SANY', 'range membership decided in exact rational arithmetic from the requested data and the learned data range', 'densities from get_density_estimation_results(); relative ties below 1e-9 share a rank']
    # extension beyond the listed properties: graph phase of Clustering (spec/Clustering.tla, ClusteringTrace.tla), drift reports only
    try:
        from harness.drivers import clustering_extra
        clustering_extra.run(rep, tier, seed)
    except Exception as ex:      # the extension never decides the listed property
        rep.exclude('extension Clustering.tla not evaluated: %r' % (ex,))
    return rep.finish()


def replay(path, seed):
    print('re-run bin/check C19: the failing case is recorded in %s' % path)
    return run('quick', seed)
