"""Dimension-adaptive combination (DimAdaptiveCombi.perform_combi): model DimAdaptive.tla, trace specification
DimAdaptiveTrace.tla.

spec -> code: walks through the TLC state graph of DimAdaptive.tla are replayed on the real loop by scripting the
surpluses (calculate_surplus is overridden on the instance, so the loop's argmax follows the walk); after every request
the index sets and the set of integrated grids are compared with the model state.
code -> spec: every real run (natural surpluses and scripted ones) is recorded - scheme at every evaluation round,
every grid.integrate call, every surplus, every update request, the returned tuple - and judged by TLC."""
import random

import numpy as np

from harness.engine import impl, tlc
from harness.drivers import driver_pipeline as DP


class Stop(Exception):
    pass


def mc_cfg(D, lmin, lmax, cap, on_demand=True):
    return ('SPECIFICATION Spec\nCONSTANTS D = %d\n LMIN = %d\n LMAX = %d\n CAP = %d\n ON_DEMAND = %s\nCONSTRAINT InBox\nCHECK_DEADLOCK FALSE\n'
            'INVARIANT C05_ResultIsCombination\nINVARIANT C05_NoException\nINVARIANT C01_Embedded\nINVARIANT I_ActiveInScheme\n'
            'PROPERTY I_InnerLoopProgress\nPROPERTY I_RefineChanges\n' % (D, lmin, lmax, cap, 'TRUE' if on_demand else 'FALSE'))


def _vec(v):
    return [int(x) for x in v]


def mkgrid(kind, a, b):
    from sparseSpACE.Grid import TrapezoidalGrid, ClenshawCurtisGrid
    return TrapezoidalGrid(a=a, b=b, boundary=True) if kind == 'trapezoid' else ClenshawCurtisGrid(a=a, b=b, boundary=True)


def independent(scheme_pairs, func, D, a, b, gk):
    f2 = DP.make_function(func, D)
    ind = 0.0
    for lv, c in scheme_pairs:
        g2 = mkgrid(gk, a, b)
        ind = ind + c * np.atleast_1d(np.asarray(g2.integrate(f2, np.array(lv), a, b), dtype=float))
    return np.atleast_1d(ind)


def record_run(D, lmin, tol, func='cornerpeak', box=None, gk='trapezoid', max_points=None, combi=None, op=None, script=None, stop_after=None,
               origin='natural'):
    """one perform_combi call on a (new or given) DimAdaptiveCombi; returns (trace, combi, op, info).
    script: function(levelvector tuple, round) -> error value (overrides calculate_surplus);
    stop_after: number of evaluation rounds after which the run is abandoned (no Ret event)."""
    from sparseSpACE.DimAdaptiveCombi import DimAdaptiveCombi
    from sparseSpACE.GridOperation import Integration
    a, b = (np.zeros(D), np.ones(D)) if box is None else (np.array(box[0], dtype=float), np.array(box[1], dtype=float))
    f = DP.make_function(func, D)
    if combi is None:
        grid = mkgrid(gk, a, b)
        op = Integration(f=f, grid=grid, dim=D, reference_solution=DP.reference(func, f, a, b))
        combi = DimAdaptiveCombi(a, b, operation=op)
    else:
        op.f = f
        op.reference_solution = DP.reference(func, f, a, b)
    ref = np.atleast_1d(np.asarray(op.get_reference_solution(), dtype=float))
    events, rounds, nps = [], [], []
    cs = combi.combischeme
    grid = op.grid
    o_get, o_upd, o_int = cs.getCombiScheme, cs.update_adaptive_combi, grid.integrate
    had_surplus = 'calculate_surplus' in combi.__dict__
    o_sur = combi.calculate_surplus
    state = {'in_loop': False}

    def get(lmin_, lmax_, do_print=True):
        sch = o_get(lmin_, lmax_, do_print=do_print)
        if not do_print and state['in_loop']:
            pairs = sorted([_vec(g.levelvector), int(g.coefficient)] for g in sch)
            if stop_after is not None and len(rounds) > stop_after:
                raise Stop()
            rounds.append(pairs)
            nps.append(None)
            events.append({'k': 'E', 'scheme': pairs, 'res_comb': True, 'mid_comb': True})
        state['in_loop'] = True      # the first call (do_print default) precedes the loop
        return sch

    def upd(lv):
        ret = o_upd(lv)
        events.append({'k': 'U', 'v': _vec(lv), 'none': ret is None, 'dims': sorted(int(d) for d in ret) if ret is not None else [],
                       'active': sorted(_vec(v) for v in cs.active_index_set), 'old': sorted(_vec(v) for v in cs.old_index_set)})
        return ret

    def integ(f_, lv, start, end):
        events.append({'k': 'I', 'v': _vec(lv)})
        return o_int(f_, lv, start, end)

    def sur(component_grid, integral_dict):
        if stop_after is not None and len(rounds) > stop_after:
            raise Stop()
        events.append({'k': 'S', 'v': _vec(component_grid.levelvector)})
        if script is not None:
            o_sur(component_grid, integral_dict)      # the real surplus is still formed (it reads the cache)
            return float(script(tuple(_vec(component_grid.levelvector)), len(rounds)))
        return o_sur(component_grid, integral_dict)

    cs.getCombiScheme, cs.update_adaptive_combi, grid.integrate, combi.calculate_surplus = get, upd, integ, sur
    ret = None
    try:
        with impl.quiet(), impl.watchdog(240):
            try:
                ret = combi.perform_combi(lmin, 2, tol, max_number_of_points=max_points)
            except Stop:
                pass
    finally:
        del cs.getCombiScheme, cs.update_adaptive_combi, grid.integrate
        if had_surplus:
            combi.calculate_surplus = o_sur
        else:
            del combi.calculate_surplus
    info = {'rounds': rounds, 'ret': ret}
    if ret is not None:
        scheme, abserr, res, errors, num_points = ret
        res = np.atleast_1d(np.asarray(res, dtype=float))
        pairs = sorted([_vec(g.levelvector), int(g.coefficient)] for g in scheme)
        inds = [independent(p, func, D, a, b, gk) for p in rounds]
        rel = lambda x: float(np.max(np.abs(x - ref) / np.abs(ref)))
        eidx = [i for i, e in enumerate(events) if e['k'] == 'E']
        for j, i in enumerate(eidx):
            if j < len(errors):
                # the error recorded for this round must be the deviation of the combination of this round's scheme
                events[i]['mid_comb'] = bool(abs(float(np.max(errors[j])) - rel(inds[j])) <= 1e-9 * max(1.0, rel(inds[j])))
            else:
                events[i]['res_comb'] = DP.close(res, inds[j])
                events[i]['_res'] = [float(x) for x in res]
                events[i]['_indep'] = [float(x) for x in inds[j]]
        final_ind = independent(pairs, func, D, a, b, gk)
        with impl.quiet():
            npts_final = combi.get_total_num_points()
        stop_due = (rel(res) < tol) or (max_points is not None and npts_final > max_points)
        # every earlier round must NOT have been due (error part only; the point criterion is monotone in practice and checked at the end)
        not_due_before = all(float(np.max(e)) >= tol for e in errors)
        events.append({'k': 'Ret', 'scheme': pairs, 'final_comb': DP.close(res, final_ind) and DP.close(np.atleast_1d(abserr), np.abs(res - ref), 1e-9),
                       'stop_due': bool(stop_due and not_due_before), 'nerr': len(errors), 'nnp': len(num_points), 'nevals': len(rounds),
                       '_res': [float(x) for x in res], '_indep': [float(x) for x in final_ind]})
    tr = {'d': D, 'lmin': lmin, 'lmax': 2, 'events': [{k: v for k, v in e.items() if not k.startswith('_')} for e in events],
          'origin': origin, '_events': events, '_case': dict(D=D, lmin=lmin, tol=tol, func=func, box=box, gk=gk, max_points=max_points)}
    return tr, combi, op, info


# ------------------------------------------------------------------------------------------------- spec -> code
def walk_script(g, rng, max_rounds):
    """random walk through the TLC graph of DimAdaptive.tla from the initial state; returns the list of rounds, each
    (posErr set, [requested grids in order]) and the model states after every request"""
    out = {}
    for s, t, lab in g.edges:
        out.setdefault(s, []).append((t, lab))
    s = g.init[0]
    rounds, checkpoints = [], []
    cur = None
    while len(rounds) <= max_rounds:
        succ = out.get(s, [])
        if not succ:
            break
        st = g.states[s]
        if st['pc'] == 'decide':
            succ = [x for x in succ if g.states[x[0]]['pc'] == 'refine'] or succ
        if st['pc'] == 'errors':
            succ = [x for x in succ if len(g.states[x[0]]['posErr']) > 0] or succ
        t, lab = rng.choice(succ)
        name = lab.split('(')[0]
        nt = g.states[t]
        if name == 'Errors':
            cur = {'pos': sorted(tuple(v) for v in nt['posErr']), 'req': []}
            rounds.append(cur)
        elif name == 'RequestAny':
            newz = [tuple(v) for v in nt['zeroed'] if tuple(v) not in {tuple(w) for w in st['zeroed']}]
            gsel = newz[0] if newz else None
            if gsel is None:      # an already zeroed grid was requested again (all errors zero, index 0): only natural runs reach that
                break
            cur['req'].append(gsel)
            checkpoints.append((len(rounds), len(cur['req']), nt))
        elif name == 'Stop':
            break
        s = t
    return rounds, checkpoints


def graph_replay(rep, tier, rng, traces):
    cfgs = [(2, 1, 2, 4), (3, 1, 2, 3), (2, 0, 2, 3), (1, 1, 2, 4), (2, 2, 2, 4)] if tier == 'quick' else \
           [(2, 1, 2, 5), (3, 1, 2, 3), (2, 0, 2, 4), (1, 1, 2, 5), (1, 0, 2, 4), (2, 2, 2, 5), (3, 0, 2, 2), (4, 1, 2, 2)]
    nwalk = 12 if tier == 'quick' else 60
    for D, lmin, lmax, cap in cfgs:
        name = 'DimAdaptive D=%d lmin=%d cap=%d' % (D, lmin, cap)
        r, g = tlc.run('DimAdaptive', mc_cfg(D, lmin, lmax, cap), 'dimad', dump=True, timeout=1200)
        rep.tlc(name, r)
        if r.violated:
            raise tlc.TLCError('DimAdaptive.tla violates %s for %s (model-level)' % (r.violated, name))
        for act in ('Eval', 'Errors', 'RequestAny', 'Stop'):
            if r.action_counts.get(act, (0, 0))[1] == 0:
                raise tlc.TLCError('vacuous: action %s never taken in %s' % (act, name))
        mism = 0
        for w in range(nwalk):
            rounds, checkpoints = walk_script(g, rng, 4)
            if not rounds or not any(x['req'] for x in rounds):
                continue

            def script(lv, rnd, rounds=rounds):
                if rnd > len(rounds):
                    return 0.0
                cur = rounds[rnd - 1]
                if lv in cur['req']:
                    return 100.0 - cur['req'].index(lv)
                return 1e-3 if lv in cur['pos'] else 0.0
            # requested grids must carry a positive error in the walk (posErr), otherwise the argmax cannot be steered: skip such walks
            if any(q not in x['pos'] for x in rounds for q in x['req']):
                continue
            nr = len([x for x in rounds if x['req']])
            try:
                tr, combi, op, info = record_run(D, lmin, -1.0, script=script, stop_after=nr, origin='graph walk %s' % name)
            except impl.Timeout:
                rep.exclude('%s walk %d: timeout' % (name, w))
                continue
            except Exception as ex:
                rep.violation('C05_NoException', {'strategy': 'dimadaptive', 'exception': type(ex).__name__, 'origin': 'graph'},
                              {'case': name, 'rounds': str(rounds), 'exception': repr(ex)}, what='%s scripted walk raised %r' % (name, ex))
                continue
            traces.append(tr)
            # compare the sets after every request with the model states of the walk
            us = [e for e in tr['_events'] if e['k'] == 'U']
            for (rn, qn, st), e in zip(checkpoints, us):
                same = (sorted(tuple(v) for v in st['active']) == sorted(tuple(v) for v in e['active'])
                        and sorted(tuple(v) for v in st['old']) == sorted(tuple(v) for v in e['old']))
                if not same:
                    mism += 1
                    if mism <= 3:
                        rep.drift('%s: after request %s the index sets differ from the model state' % (name, e['v']), {'impl_active': e['active'], 'model_active': sorted(st['active'])})
            if len(us) < len([q for x in rounds for q in x['req']]):
                mism += 1
                if mism <= 3:
                    rep.drift('%s: the loop issued %d requests, the model walk %d' % (name, len(us), len([q for x in rounds for q in x['req']])))
            rep.count(1, key=(name, str(rounds)))
        rep.cov['tlc_runs'][-1]['walk_mismatches'] = mism


# ------------------------------------------------------------------------------------------------- code -> spec
def natural_traces(rep, tier, traces):
    runs = [(2, 1, 1e-3, 'cornerpeak', None, 'trapezoid', None), (2, 1, 1e-3, 'product', None, 'trapezoid', None),
            (2, 1, 1e-2, 'cornerpeak', ([0.0, 0.5], [2.0, 1.5]), 'trapezoid', None), (2, 1, 1e-3, 'cornerpeak', None, 'clenshaw', None),
            (3, 1, 1e-2, 'cornerpeak', None, 'trapezoid', None), (2, 0, 1e-2, 'cornerpeak', None, 'trapezoid', None), (1, 1, 1e-3, 'cornerpeak', None, 'trapezoid', None),
            (1, 0, 1e-3, 'product', None, 'trapezoid', None), (2, 2, 1e-3, 'cornerpeak', None, 'trapezoid', None), (2, 1, 1e-9, 'cornerpeak', None, 'trapezoid', 60),
            (3, 1, 1e-9, 'product', None, 'trapezoid', 200), (2, 1, 1e9, 'cornerpeak', None, 'trapezoid', None), (2, 1, 1e-3, 'vector', None, 'trapezoid', None)]
    if tier == 'thorough':
        runs += [(3, 0, 1e-2, 'cornerpeak', None, 'trapezoid', None), (4, 1, 1e-2, 'cornerpeak', None, 'trapezoid', None), (3, 2, 1e-3, 'product', None, 'trapezoid', None),
                 (2, 1, 1e-5, 'cornerpeak', None, 'trapezoid', None), (3, 1, 1e-3, 'cornerpeak', ([0.0, 0.0, 0.0], [1.0, 2.0, 0.5]), 'trapezoid', None),
                 (2, 1, 1e-9, 'vector', None, 'clenshaw', 150), (2, 0, 1e-9, 'product', None, 'trapezoid', 100)]
    prev = {}
    for D, lmin, tol, func, box, gk, mp in runs:
        for reuse in (False, True):
            key = (D, gk, str(box))
            if reuse and key not in prev:
                continue
            name = 'dimadaptive loop D=%d lmin=%d %s box=%s grid=%s tol=%g max_points=%s%s' % (D, lmin, func, box, gk, tol, mp, ' (object of an earlier run re-used)' if reuse else '')
            try:
                if reuse:
                    combi, op = prev[key]
                    tr, combi, op, info = record_run(D, lmin, tol, func, box, gk, mp, combi=combi, op=op, origin=name)
                else:
                    tr, combi, op, info = record_run(D, lmin, tol, func, box, gk, mp, origin=name)
                prev[key] = (combi, op)
            except impl.Timeout:
                rep.exclude(name + ': timeout')
                continue
            except Exception as ex:
                rep.violation('C05_NoException', {'strategy': 'dimadaptive', 'exception': type(ex).__name__, 'reuse': reuse, 'D': D, 'lmin': lmin},
                              {'case': name, 'exception': repr(ex)}, what='%s raised %r' % (name, ex))
                continue
            traces.append(tr)
            rep.count(1, key=name, nontrivial=len(info['rounds']) > 1)
            rep.sample({'dimension-adaptive run': name, 'evaluation_rounds': len(info['rounds']), 'requests': [e['v'] for e in tr['_events'] if e['k'] == 'U'][:10]}, limit=3)


def stop_sweep(rep, tier, traces):
    """stop the loop at every evaluation round: a probe run gives the point count per round, the run is then repeated with a point
    limit that is first exceeded at round j, for every j - the value reported at EVERY possible stop must be the combination"""
    cfgs = [(2, 1, 'cornerpeak', 'trapezoid', 120), (3, 1, 'product', 'trapezoid', 250), (2, 0, 'product', 'trapezoid', 80), (2, 1, 'vector', 'clenshaw', 80)]
    if tier == 'thorough':
        cfgs += [(2, 2, 'cornerpeak', 'trapezoid', 400), (3, 0, 'cornerpeak', 'trapezoid', 300), (4, 1, 'cornerpeak', 'trapezoid', 400), (1, 1, 'product', 'trapezoid', 60)]
    nmax = 6 if tier == 'quick' else 14
    for D, lmin, func, gk, cap in cfgs:
        name = 'dimadaptive stop sweep D=%d lmin=%d %s %s' % (D, lmin, func, gk)
        try:
            tr, combi, op, info = record_run(D, lmin, 1e-12, func, None, gk, cap, origin=name + ' probe')
            traces.append(tr)
            nps = [int(x) for x in info['ret'][4]]
            for j in range(min(nmax, len(nps))):
                if j > 0 and nps[j] <= nps[j - 1]:
                    continue
                reuse = (j % 3 == 2)
                tr, combi2, op2, info2 = record_run(D, lmin, 1e-12, func, None, gk, nps[j] - 1, combi=combi if reuse else None, op=op if reuse else None,
                                                    origin=name + ' stop at round %d%s' % (j + 1, ' (probe object re-used)' if reuse else ''))
                traces.append(tr)
                rep.count(1, key=(name, j), nontrivial=j > 0)
        except impl.Timeout:
            rep.exclude(name + ': timeout')
        except Exception as ex:
            rep.violation('C05_NoException', {'strategy': 'dimadaptive', 'exception': type(ex).__name__, 'D': D, 'lmin': lmin, 'origin': 'sweep'},
                          {'case': name, 'exception': repr(ex)}, what='%s raised %r' % (name, ex))


def conclude(rep, traces):
    clean = [{k: v for k, v in t.items() if not k.startswith('_')} for t in traces]
    verdicts, st, trn = tlc.validate_traces('DimAdaptiveTrace', clean, rep.pid.lower() + 'da')
    rep.cov['states'] += st
    rep.cov['transitions'] += trn
    rep.cov['traces_validated_against_impl'] += len(traces)
    drift = {}
    for tr, v in zip(traces, verdicts):
        for step, clause in v:
            if clause.startswith('C05_'):
                ev = tr['_events'][step - 1]
                rep.violation(clause, {'strategy': 'dimadaptive', 'event': ev['k'], 'D': tr['d'], 'lmin': tr['lmin']},
                              {'case': tr['_case'], 'origin': tr['origin'], 'failing_event': step, 'events': tr['_events'][:step]},
                              what='%s event %d %s' % (tr['origin'], step, {k: v for k, v in ev.items() if k.startswith('_') or k in ('k', 'v', 'stop_due', 'nerr', 'nnp', 'nevals')}))
            elif clause.startswith('C01_'):
                drift['(C01 clause, decided by check C01) ' + clause] = drift.get('(C01 clause, decided by check C01) ' + clause, 0) + 1
            else:
                drift[clause] = drift.get(clause, 0) + 1
    for c, n in drift.items():
        rep.drift('dimension-adaptive loop: %s failed on %d recorded steps' % (c, n))


def run_all(rep, tier, seed):
    rng = random.Random(seed + 5)
    traces = []
    graph_replay(rep, tier, rng, traces)
    natural_traces(rep, tier, traces)
    stop_sweep(rep, tier, traces)
    conclude(rep, traces)
    return traces
