"""C03 / C04 / C06 on the dimension-wise strategy: configuration lists and verdict attribution."""
import json
import random
import time

from harness.engine import tlc
from harness.engine.report import Report
from harness.drivers import dimwise_pipeline as P

PREFIX = {'C03': ('C03_', 'C01_'), 'C04': ('C04_',), 'C06': ('C06_',)}


def cfgs_mc(prop, tier):
    base = dict(D=2, lmin=1, lmax=2, version=6, rebalancing=False, boundary=True, sfn=1, sfd=10, steps=2, maxsel=1)
    L = []

    def add(**kw):
        c = dict(base)
        c.update(kw)
        c['name'] = 'D=%d (%d,%d) v%d reb=%s bnd=%s sf=%d/%d steps=%d sel<=%d' % (
            c['D'], c['lmin'], c['lmax'], c['version'], c['rebalancing'], c['boundary'], c['sfn'], c['sfd'], c['steps'], c['maxsel'])
        if c.get('margin') is not None:
            c['name'] += ' margin=%s' % c['margin']
        if c.get('seldims'):
            c['name'] += ' seldims=%s' % c['seldims']
        L.append(c)
    if prop == 'C06':
        add(rebalancing=True, maxsel=2)
        add(rebalancing=True, sfn=0, sfd=1, steps=(2 if tier == 'quick' else 3))
        add(rebalancing=True, sfn=0, sfd=1, steps=2, maxsel=3, seldims=[1], maxedges=800)
        add(rebalancing=False, maxsel=2, margin=0.5)
        if tier == 'thorough':
            add(rebalancing=True, steps=3, maxsel=2)
            add(rebalancing=True, sfn=3, sfd=10, steps=3)
            add(rebalancing=True, lmax=3, steps=2, maxsel=2)
            add(D=3, rebalancing=True, steps=2)
            add(rebalancing=True, lmin=2, lmax=3, steps=2)
            add(rebalancing=False, steps=3, maxsel=2, margin=1.0)
    elif prop == 'C03':
        add(version=6, maxsel=2)
        add(version=6, rebalancing=True, boundary=False)
        add(version=8, lmax=3)
        if tier == 'thorough':
            for v in (2, 3, 7, 8):
                add(version=v, maxsel=2)
                add(version=v, rebalancing=True, steps=3)
            add(version=6, steps=3, maxsel=2)
            add(version=6, lmin=2, lmax=3, steps=2, maxsel=2)
            add(version=6, D=3, steps=2)
            add(version=7, lmax=3, boundary=False, steps=2, maxsel=2)
    else:  # C04
        add(version=6, maxsel=2)
        add(version=6, rebalancing=True)
        add(version=7, boundary=False)
        if tier == 'thorough':
            add(version=6, steps=3, maxsel=2)
            add(version=8, steps=3)
            add(version=6, lmax=3, steps=2, maxsel=2)
            add(version=6, lmin=2, lmax=3, steps=2)
            add(version=6, D=3, steps=2)
            add(version=2, steps=2, maxsel=2)
            add(version=3, lmin=2, lmax=3, steps=2)
    return L


def cfgs_random(prop, tier, rng):
    n = {'quick': 36, 'thorough': 400}[tier]
    out = []
    for i in range(n):
        D = rng.choice([2, 2, 2, 3]) if prop != 'C06' else rng.choice([1, 2, 2, 3]) if False else rng.choice([2, 2, 3])
        lmin, lmax = rng.choice([(1, 2), (1, 2), (1, 3), (2, 3)])
        c = dict(D=D, lmin=lmin, lmax=lmax, version=rng.choice([6, 6, 7, 8, 2, 3, 0, 1]) if prop != 'C06' else rng.choice([6, 6, 6, 7, 2, 0, 1]),
                 rebalancing=rng.random() < (0.7 if prop == 'C06' else 0.4), boundary=rng.random() < 0.7,
                 sfn=rng.choice([1, 1, 0, 3]) if prop == 'C06' else 1, sfd=10, maxintervals=40 if D == 2 else 24,
                 max_hats=(24 if tier == 'quick' else 80) if prop == 'C04' else 6)
        if prop == 'C06':
            c['margin'] = [0.0, 1.0, 0.0, 0.1][i] if i < 4 else rng.choice([None, None, 0.5, 1.0, 0.75, 0.25, 0.0, 0.1])
        if rng.random() < 0.4:
            # non-cubic domains; in the dyadic boxes [0, 2^d] and in [-1, 1] x [0, 1] x ... interior grid coordinates of one dimension coincide
            # with the bounds of another dimension (coordinates compared with the wrong dimension's bounds would show there)
            dom = rng.choice(['wide', 'wide', 'dyadic', 'dyadic', 'mixed'])
            if dom == 'wide':
                c['a'] = [-3.0 + d for d in range(D)]
                c['b'] = [6.0 + 2 * d for d in range(D)]
            elif dom == 'dyadic':
                c['a'] = [0.0] * D
                c['b'] = [float(2 ** d) for d in range(D)]
            else:
                c['a'] = [-1.0] + [0.0] * (D - 1)
                c['b'] = [1.0] * D
            c['int_domain'] = rng.random() < 0.5
        if prop in ('C04', 'C03') and rng.random() < 0.15:
            # boundary points off with the modified basis: every linear function has to stay exact
            c['modified'] = True
            c['boundary'] = False
        r = rng.random()
        if r < 0.2:
            # further constructor options of the strategy
            c['extra'] = rng.choice([{'use_volume_weighting': True}, {'use_relative_surplus': True}])      # (dim_adaptive=False keeps the standard scheme without adaptive index sets: not driven)
        c['name'] = 'random-config %d' % i
        out.append((c, rng.randint(3, 6) if D == 2 else rng.randint(2, 4)))
    return out


def cfgs_chain(prop, tier):
    out = []
    pats2 = [[('L', (0, 1))] * 3, [('L', (1,)), ('L', (0,)), ('L', (1,)), ('L', (0,))], [('F', (0, 1)), ('F', (0,)), ('F', (0,))], [('L', (0,))] * 3 + [('L', (1,))],
             [('L', (1,))] * 2 + [('L', (0,))] + [('F', (1,))], [('F', (0,)), ('L', (1,)), ('F', (0,)), ('L', (0, 1))]]
    pats3 = [[('L', (0, 1, 2)), ('L', (0,))], [('L', (1,)), ('L', (0,))], [('L', (1,)), ('L', (0,)), ('L', (2,))], [('F', (0, 1, 2)), ('F', (2,)), ('L', (0,))]]
    versions = (6, 8) if tier == 'quick' else (6, 7, 8, 2, 3)
    if prop == 'C04' and tier == 'quick':
        versions = (6, 8, 3)
    for D, pats in ((2, pats2), (3, pats3)):
        for (lmin, lmax) in ((2, 3), (1, 3)) + (((1, 2),) if tier == 'thorough' else ()):
            for version in versions:
                for bnd in (True, False):
                    if tier == 'quick' and D == 3 and (lmin, lmax) == (2, 3) and not bnd:
                        continue
                    for pi, pat in enumerate(pats):
                        c = dict(D=D, lmin=lmin, lmax=lmax, version=version, rebalancing=False, boundary=bnd, sfn=1, sfd=10, maxintervals=40 if D == 2 else 30,
                                 max_hats=(60 if tier == 'quick' else 120) if prop == 'C04' else 6, name='chain D=%d (%d,%d) v%d bnd=%s #%d' % (D, lmin, lmax, version, bnd, pi))
                        if prop == 'C06':
                            c['margin'] = None
                        out.append((c, pat))
    if tier == 'thorough':
        out += [(dict(c, rebalancing=True, name=c['name'] + ' rebal'), pat) for c, pat in out if c['version'] == 6]
    # bursts with rebalancing on: several intervals of ONE dimension are split per step for a few steps, afterwards only the other dimension is
    # refined - the rebalancing pass (one rotation per step) keeps working on the dimension that is no longer refined
    bursts = []
    for A, Bd in ((0, 1), (1, 0)):
        bursts.append([('I', {A: [-1], Bd: [1]}), ('I', {A: [-1], Bd: [1, 2]}), ('I', {A: [-1]}), ('I', {A: [-1]})])
        bursts.append([('I', {A: [0], Bd: [-2]}), ('I', {A: [0], Bd: [-2, -3]}), ('I', {A: [0], Bd: [-2, -3, -4]}), ('I', {A: [0]}), ('I', {A: [-1]}), ('I', {A: [0]})])
        bursts.append([('I', {Bd: [0, 1]}), ('I', {Bd: [0, 1, 2, 3]}), ('I', {A: [0]}), ('I', {A: [1]}), ('I', {A: [-1]})])
        bursts.append([('I', {A: [-1], Bd: [1]}), ('I', {Bd: [1, 2]}), ('I', {Bd: [2, 3]}), ('I', {A: [-1]}), ('I', {A: [-1]}), ('I', {A: [-2]})])
    for (lmin, lmax) in ((1, 2), (2, 3)) + (((1, 3),) if tier == 'thorough' else ()):
        for version in ((6,) if tier == 'quick' else (6, 7, 8, 2)):
            for sfn in ((1,) if tier == 'quick' else (1, 0, 3)):
                for pi, pat in enumerate(bursts):
                    c = dict(D=2, lmin=lmin, lmax=lmax, version=version, rebalancing=True, boundary=(pi % 2 == 0), sfn=sfn, sfd=10, maxintervals=60,
                             max_hats=(60 if tier == 'quick' else 120) if prop == 'C04' else 6, name='burst D=2 (%d,%d) v%d sf=%d/10 #%d' % (lmin, lmax, version, sfn, pi))
                    if prop == 'C06':
                        c['margin'] = None
                    out.append((c, pat))
    return out


def classify_c04(rep, tr, step):
    """cause discriminator for a lost-exactness observation (DESIGN section 6, findings 1 / 1b)"""
    cfg = tr['_script']['cfg']
    dec = tr.get('_decisions')
    if dec is None:
        return 'unclassified'
    if '_first_step' in tr:      # edge replay: the trace shows only the last step of the decision path
        dec = dec if step == 2 else dec[:-1]
    else:
        dec = dec[:step - 1]
    try:
        if cfg['rebalancing']:
            oks = P.replay_decisions(cfg, dec, rebalancing=False)
            if all(oks):
                return 'rebalancing'
        if cfg['version'] in (2, 3):
            oks = P.replay_decisions(cfg, dec, rebalancing=False, version=6)
            if all(oks):
                return 'version%d' % cfg['version']
    except Exception as ex:  # pragma: no cover
        return 'unclassified(%r)' % ex
    return 'unexplained'


def run_prop(prop, tier, seed, finish=True):
    rep = Report(prop, tier, seed, 'model_checking')
    rng = random.Random(seed + hash(prop) % 1000)
    traces = []
    invs = list(P.MC_INVS)
    tm = rep.cov.setdefault('phase_wall_s', {'tlc_mc': 0.0, 'edge_replay': 0.0, 'random_histories': 0.0, 'trace_validation': 0.0})
    for c in cfgs_mc(prop, tier):
        use = [i for i in invs if not (i == 'C04_InitialSpaceExact' and (c['rebalancing'] or c['version'] in (2, 3)))]
        t0 = time.time()
        r, g = tlc.run('DimWise', P.mc_cfg(c, use), prop.lower(), dump=True, timeout=3000)
        tm['tlc_mc'] += time.time() - t0
        t0 = time.time()
        rep.tlc('DimWise ' + c['name'], r, invariants=use)
        if r.violated:
            raise tlc.TLCError('specification DimWise violates %s for %s (model-level; to be replayed on the code before it means anything)' % (r.violated, c['name']))
        if r.action_counts.get('Next', (0, 0))[1] == 0 or r.distinct < 2:
            raise tlc.TLCError('vacuous run: RefineStep never taken for ' + c['name'])
        nedges, mism, unreached = P.edge_replay(rep, g, c, traces, maxedges=c.get('maxedges', 150 if tier == 'quick' else 1500), rng=rng)
        tm['edge_replay'] += time.time() - t0
        rep.cov['tlc_runs'][-1].update({'edges_replayed_on_impl': nedges, 'edge_mismatches': mism, 'spec_states_not_materialised': unreached})
    t0 = time.time()
    for c, steps in cfgs_random(prop, tier, rng):
        try:
            tr = P.random_history(rng, c, steps)
        except Exception as ex:
            rep.exclude('random history %s raised %r' % ({k: c[k] for k in ('D', 'lmin', 'lmax', 'version', 'rebalancing', 'boundary')}, ex))
            continue
        traces.append(tr)
        rep.count(1, key=('rand', json.dumps(tr['_script'], sort_keys=True)))
        rep.sample({'kind': 'random scripted history', 'cfg': tr['_script']['cfg'], 'decisions': tr['_decisions'][:3]}, limit=3)
    # deterministic chains: repeated refinement towards one end of the domain in some dimensions only (deep one-sided trees next to
    # untouched regions; a step that refines only ANOTHER dimension than the previous one), observed after every step on one object
    for c, pat in cfgs_chain(prop, tier):
        try:
            tr = P.chain_history(c, pat)
        except Exception as ex:
            rep.exclude('chain history %s raised %r' % ({k: c[k] for k in ('D', 'lmin', 'lmax', 'version', 'rebalancing', 'boundary')}, ex))
            continue
        traces.append(tr)
        rep.count(1, key=('chain', json.dumps(tr['_script'], sort_keys=True)))
    # pairs of strategy objects with different configurations refined alternately
    rc = cfgs_random(prop, tier, rng)
    for (c1, s1), (c2, s2) in list(zip(rc[0::2], rc[1::2]))[: (6 if tier == 'quick' else 60)]:
        try:
            for tr in P.paired_history(rng, c1, c2, min(s1, s2, 4)):
                traces.append(tr)
                rep.count(1, key=('paired', json.dumps(tr['_script'], sort_keys=True)))
        except Exception as ex:
            rep.exclude('paired history raised %r' % ex)
    tm['random_histories'] = time.time() - t0
    rep.exclude('constructor option force_balanced_refinement_tree=True: one-sided refinement histories trip the assertion in find_missing_point (the option presupposes refinement that keeps full binary trees); not driven')
    rep.exclude('constructor option dim_adaptive=False: the strategy keeps the standard scheme and maintains no adaptive index sets; not driven')
    return conclude(rep, prop, traces, finish=finish)


def conclude(rep, prop, traces, finish=True):
    t0 = time.time()
    verdicts, st, trn = P.validate(traces)
    rep.cov.setdefault('phase_wall_s', {})['trace_validation'] = round(time.time() - t0, 1)
    rep.cov['states'] += st
    rep.cov['transitions'] += trn
    rep.cov['traces_validated_against_impl'] += len(traces)
    rep.cov['trace_events'] = sum(len(t['events']) for t in traces)
    drift = {}
    for tr, v in zip(traces, verdicts):
        for step, clause in v:
            if clause.startswith(PREFIX[prop]):
                cfg = tr['_script']['cfg']
                sig = {'strategy': 'dimwise', 'version': cfg['version'], 'rebalancing': cfg['rebalancing']}
                if prop == 'C04':
                    sig['cause'] = classify_c04(rep, tr, step)
                    # a loss is one of the recorded findings only if the specification EXPLAINS it: on this very state the point sets the library
                    # uses are the ones the model derives from the recorded trees (I_PointSets) and the discrete criterion predicts exactly the
                    # hats that were lost (I_C04_Criterion).  A loss on a state the model does not explain is something else.
                    unexplained = sorted(cl for st2, cl in v if st2 == step and cl in ('I_PointSets', 'I_C04_Criterion'))
                    if unexplained and sig['cause'] in ('rebalancing', 'version2', 'version3'):
                        sig['cause'] = 'not explained by the model (%s fails on the same state)' % ', '.join(unexplained)
                    if sig['cause'] in ('rebalancing', 'version2', 'version3'):
                        # the recorded legacy-version findings are limited to the start levels on which the unchanged library shows them
                        sig = {'strategy': 'dimwise', 'cause': sig['cause'], 'lmin_ge_2': cfg['lmin'] >= 2, 'lmin_ge_2_or_gap_ge_2': cfg['lmin'] >= 2 or cfg['lmax'] - cfg['lmin'] >= 2}
                else:
                    sig.update({'D': cfg['D'], 'lmin': cfg['lmin'], 'lmax': cfg['lmax'], 'boundary': cfg['boundary'], 'step': step,
                                'origin': tr['origin'].split(' ')[0]})
                rep.violation(clause, sig, {'script': tr['_script'], 'failing_step': step, 'detail': tr.get('_detail'),
                                            'decisions': tr.get('_decisions'), 'event': tr['events'][step - 1]},
                              what='%s at step %d of %s' % ({k: cfg[k] for k in ('D', 'lmin', 'lmax', 'version', 'rebalancing', 'boundary')}, step, tr['origin']))
            elif clause.startswith('I_'):
                drift[clause] = drift.get(clause, 0) + 1
    for c, n in drift.items():
        rep.drift('%s failed on %d recorded steps' % (c, n))
    rep.cov['rule'] = ('edge replay: every (state, selection) edge of the bounded TLC graph of DimWise.tla executed on the real strategy '
                       '(quick: capped per configuration); random: seeded scripted benefit assignments (zeros, ties, single intervals, dense) '
                       'for 2-6 steps; distinct by (configuration, benefit script); non-trivial = at least one refinement step')
    rep.assumptions += ['TLC/SANY', 'projection in harness/drivers/dimwise_common.py (public attributes only)',
                        'numeric clauses (interpolation identity, hat exactness) evaluated by the harness with tolerance 1e-8/1e-10',
                        'lattice 2^12 per dimension; bounded histories']
    return rep.finish() if finish else rep


def replay_prop(prop, path, seed):
    rep = Report(prop, 'quick', seed, 'model_checking')
    with open(path) as f:
        r = json.load(f)['replay']
    cfg = r['script']['cfg']
    run = P.DimWiseRun(cfg['D'], cfg['lmin'], cfg['lmax'], version=cfg['version'], rebalancing=cfg['rebalancing'], boundary=cfg['boundary'],
                       safety=cfg['safety'], margin=cfg['margin'], a=cfg['a'], b=cfg['b'], continue_via=cfg.get('continue_via', 'resume'), extra=cfg.get('extra'), modified_basis=cfg.get('modified_basis', False))
    run.evaluate()
    evs = [P.observe(run)]
    if r['script']['start_depth'] != 0:
        print('replay of an edge-replay case: re-driving the recorded decisions is not available; re-run the check instead')
    dec = r.get('decisions') or []
    steps = r['script']['steps'] if r['script']['start_depth'] == 0 else []
    for B in steps:
        if any(len(run.combi.refinement.get_refinement_container_for_dim(d).get_objects()) != len(B[d]) for d in range(cfg['D'])):
            # the recorded benefit script no longer fits the refinement containers: this tree takes another path than the one the case was recorded
            # on (its earlier steps refined other intervals); the steps that could be applied are judged, the quick tier decides the rest
            print('replay: the recorded history diverges from this tree after %d steps (different intervals were refined)' % (len(evs) - 1))
            break
        evs.append(P.do_step(run, B))
    tr = {'cfg': P.trace_cfg(run, cfg['lmax']), 'fresh': True, 'events': [P.strip(e) for e in evs], 'origin': 'replay',
          '_script': r['script'], '_detail': [e.get('_detail') for e in evs], '_decisions': dec}
    rep.count(1, key='a')
    rep.count(1, key='b')
    rep.sample({'replayed': path})
    return conclude(rep, prop, [tr])
