"""Extension of the specification beyond the listed properties: spec/CellScheme.tla (refinement structure of the cell based
strategy) model-checked by TLC and bound to RefinementObjectCell by edge replay.  Differences are reported as DRIFT only
(no listed property speaks about this structure); called from the C14 check, which drives the cell strategy anyway."""
import numpy as np

from harness.engine import impl, tlc


def build_initial(D, lmin):
    """the initial cells exactly as SpatiallyAdaptiveCellScheme.initialize_refinement creates them"""
    import itertools
    from sparseSpACE.RefinementObject import RefinementObjectCell
    a, b = np.zeros(D), np.ones(D)
    cell_dict = {}
    root = RefinementObjectCell(np.array(a), np.array(b), np.zeros(D), a, b, [lmin] * D, cell_dict=cell_dict)
    objs = [root]
    for d in range(D):
        for _ in range(lmin):
            objs = list(itertools.chain(*[i.split_cell_arbitrary_dim(d) for i in objs]))
    return cell_dict


def project(cell_dict, D, lmin):
    cells, active = set(), set()
    for (start, end), obj in cell_dict.items():
        lv = tuple(int(round(np.log2(1.0 / (end[d] - start[d])))) for d in range(D))
        if any(l < lmin for l in lv):
            continue
        ix = tuple(int(round(start[d] * 2 ** lv[d])) for d in range(D))
        cells.add((lv, ix))
        if obj.isActive():
            active.add((lv, ix))
    return cells, active


def find(cell_dict, c, D):
    lv, ix = c
    key = (tuple(ix[d] / 2 ** lv[d] for d in range(D)), tuple((ix[d] + 1) / 2 ** lv[d] for d in range(D)))
    return cell_dict[key]


def run(rep, tier):
    D, lmin = 2, 1
    maxl, steps = (3, 4) if tier == 'quick' else (3, 6)
    cfg = ('SPECIFICATION Spec\nCONSTANTS D = %d\n LMIN = %d\n MAXL = %d\n MAXSTEPS = %d\nINVARIANT TypeOK\nINVARIANT ParentsInactive\nINVARIANT ActiveAreLeaves\n'
           'INVARIANT InitialLevelKept\nPROPERTY Monotone\nCHECK_DEADLOCK FALSE\n' % (D, lmin, maxl, steps))
    r, g = tlc.run('CellScheme', cfg, 'cell', dump=True, timeout=1200)
    rep.tlc('CellScheme', r)
    if r.violated:
        raise tlc.TLCError('CellScheme.tla violates %s' % r.violated)
    if r.distinct < 50:
        raise tlc.TLCError('vacuous: CellScheme has %d states' % r.distinct)

    def st(sid):
        s = g.states[sid]
        conv = lambda c: (tuple(c[0]), tuple(c[1]))
        return {conv(c) for c in s['cells']}, {conv(c) for c in s['active']}
    pred = {}
    init = g.init[0]
    order = [init]
    seen = {init}
    out = {}
    for s, d, _ in g.edges:
        out.setdefault(s, []).append(d)
    i = 0
    while i < len(order):
        s = order[i]
        i += 1
        for d in out.get(s, []):
            if d not in seen:
                seen.add(d)
                pred[d] = s
                order.append(d)
    replayed = drift = 0
    for s, d, _ in g.edges:
        if s == d:
            continue
        path = []
        x = s
        while x != init:
            path.append(x)
            x = pred[x]
        path = [init] + path[::-1]
        with impl.quiet():
            cd = build_initial(D, lmin)
            ok = True
            for u, v in zip(path[:-1], path[1:]):
                (cu, au), (cv, av) = st(u), st(v)
                c = next(iter(au - av))
                find(cd, c, D).refine()
            (cs, as_), (ct, at) = st(s), st(d)
            if project(cd, D, lmin) != (cs, as_):
                ok = False
            else:
                c = next(iter(as_ - at))
                find(cd, c, D).refine()
                ok = project(cd, D, lmin) == (ct, at)
        replayed += 1
        if not ok:
            drift += 1
            rep.drift('I_CellSchemeEdge', 'refining %s in state with %d cells' % (sorted(as_ - at), len(cs)))
    rep.cov['cellscheme_edges_replayed'] = replayed
    rep.cov['cellscheme_edges_differing'] = drift
    return replayed, drift
