"""Extension of the specification beyond the listed properties: spec/Clustering.tla (graph phase of the density based
clustering: nearest-neighbour graph, edge cutting, noise attachment, connected components, labels) model-checked by TLC;
real Clustering objects are run on small data sets (separated blobs, lattices with coordinate ties, all-noise and no-noise
thresholds) and every phase is judged by TLC against spec/ClusteringTrace.tla.  Differences are reported as DRIFT only (no
listed property speaks about clustering); called from the C19 check, which drives the same module of the library."""
import numpy as np

from harness.engine import impl, tlc


def datasets(rng, tier):
    out = []
    n = 6 if tier == 'quick' else 20
    for i in range(n):
        k = int(rng.integers(2, 4))
        centres = rng.uniform(0.1, 0.9, (k, 2))
        pts = np.vstack([rng.normal(c, 0.04, (int(rng.integers(3, 7)), 2)) for c in centres] + [rng.uniform(0, 1, (int(rng.integers(0, 3)), 2))])
        out.append(('blobs%d' % i, pts))
    # lattice data: many samples share a coordinate value with other samples
    out.append(('lattice-a', np.array([[i / 4, j / 4] for i in range(5) for j in range(5) if (i + j) % 2 == 0 or i < 2], dtype=float)))
    out.append(('lattice-b', np.array([[i / 3, j / 5] for i in range(4) for j in range(6) if (i * j) % 3 != 1], dtype=float)))
    out.append(('lattice-3d', np.array([[i / 2, j / 2, k / 2] for i in range(3) for j in range(3) for k in range(3) if (i + j + k) % 2 == 0], dtype=float)))
    out.append(('two-far-pairs', np.array([[0.0, 0.0], [0.05, 0.0], [1.0, 1.0], [0.95, 1.0], [0.5, 0.5]])))
    return out


def record(name, pts, nn, thr, lmax):
    from sparseSpACE.DEMachineLearning import DataSet, Clustering
    ds = DataSet(np.array(pts, dtype=float), name=name)
    with impl.quiet(), impl.watchdog(120):
        c = Clustering(ds, number_nearest_neighbors=nn, edge_cutting_threshold=thr, print_level=50, log_level=50)
        c.perform_clustering(masslumping=True, lambd=0.0, minimum_level=1, maximum_level=lmax, print_metrics=False)
    S = np.asarray(c._scaled_data[0], dtype=float)
    n = len(S)
    k = min(nn, n - 1)
    D = np.linalg.norm(S[:, None, :] - S[None, :, :], axis=2)
    edges = sorted((int(min(a, b)), int(max(a, b))) for a, b in c._all_edges)
    # independent geometric check of the nearest-neighbour graph (ties tolerated)
    eset = set(edges)
    knn_ok = True
    for i in range(n):
        d = np.sort(np.delete(D[i], i))
        rk = d[k - 1] if k >= 1 else 0.0
        for j in range(n):
            if j == i:
                continue
            e = (min(i, j), max(i, j))
            if D[i, j] < rk - 1e-12 and e not in eset:
                knn_ok = False          # a strictly nearer neighbour is missing
    for (a, b) in edges:
        da = np.sort(np.delete(D[a], a))[k - 1]
        db = np.sort(np.delete(D[b], b))[k - 1]
        if D[a, b] > da + 1e-12 and D[a, b] > db + 1e-12:
            knn_ok = False              # the edge joins no sample with one of its k nearest
    # independent evaluation of the cutting rule
    mids = np.array([(S[a] + S[b]) / 2 for a, b in edges]).reshape(len(edges), S.shape[1])
    with impl.quiet():
        dens = np.asarray(c._clustertinator(mids), dtype=float).reshape(-1)
    frac = np.clip(dens / c._density_range[1], 0.0, 1.0)
    near_tie = bool(np.any(np.abs(frac - thr) < 1e-9))
    dense = [e for e, f in zip(edges, frac) if f > thr]
    conn = sorted((int(min(a, b)), int(max(a, b))) for a, b in c._connected_edges)
    kept = sorted({x for e in conn for x in e})
    singles = [i for i in range(n) if i not in kept]
    noise = [(int(s), int(t)) for s, t in c._noise_edges]
    nearest = []
    for s in singles:
        if kept:
            dm = min(D[s, t] for t in kept)
            nearest.append([s + 1, [t + 1 for t in kept if D[s, t] <= dm + 1e-12]])
    comps = [[int(x) + 1 for x in comp] for comp in c._connected_components]
    labels = [int(x) + 1 for x in c._clustered_data[1]]
    one = lambda L: [[a + 1, b + 1] for a, b in L]
    events = [{'ph': 'graph', 'edges': one(edges), 'knn_ok': knn_ok},
              {'ph': 'cut', 'conn': one(conn), 'dense': one(dense)},
              {'ph': 'noise', 'singles': [s + 1 for s in singles], 'noise': one(noise), 'nearest': nearest},
              {'ph': 'comps', 'comps': comps},
              {'ph': 'label', 'labels': labels}]
    return {'n': n, 'k': k, 'events': events, 'origin': '%s nn=%d threshold=%g lmax=%d' % (name, nn, thr, lmax), '_near_tie': near_tie}


def run(rep, tier, seed):
    cfgs = [(4, 1), (4, 2)] if tier == 'quick' else [(4, 1), (4, 2), (5, 2)]
    for N, K in cfgs:
        cfg = ('SPECIFICATION Spec\nCONSTANTS N = %d\n K = %d\nCHECK_DEADLOCK FALSE\nINVARIANT X_Partition\nINVARIANT X_SameLabelIffConnected\n'
               'INVARIANT X_NoiseKeepsClusters\nINVARIANT X_NoiseAttachedOnce\nINVARIANT X_AllNoiseAllSingletons\n' % (N, K))
        r, _ = tlc.run('Clustering', cfg, 'clust', timeout=1500)
        rep.tlc('Clustering N=%d K=%d' % (N, K), r)
        if r.violated:
            raise tlc.TLCError('Clustering.tla violates %s' % r.violated)
        for act in ('BuildGraph', 'Cut', 'Noise', 'FindComponents', 'Label'):
            if r.action_counts.get(act, (0, 0))[1] == 0:
                raise tlc.TLCError('vacuous: action %s never taken in Clustering.tla' % act)
    rng = np.random.default_rng(seed % 2 ** 31)
    traces = []
    for name, pts in datasets(rng, tier):
        for nn, thr, lmax in [(2, 0.3, 3), (3, 0.6, 3), (2, 0.0, 2), (3, 0.999, 3), (1, 0.45, 4)]:
            try:
                tr = record(name, pts, nn, thr, lmax)
            except impl.Timeout:
                rep.exclude('clustering %s nn=%d: timeout' % (name, nn))
                continue
            except Exception as ex:
                rep.drift('X_ClusteringNoException: Clustering on %s nn=%d threshold=%g raised %r' % (name, nn, thr, ex))
                continue
            if tr.pop('_near_tie'):
                continue          # an edge density sits on the threshold: the cut is not determined up to rounding
            traces.append(tr)
    if not traces:
        return
    verdicts, st, trn = tlc.validate_traces('ClusteringTrace', traces, 'clust')
    rep.cov['states'] += st
    rep.cov['transitions'] += trn
    bad = {}
    for tr, v in zip(traces, verdicts):
        for step, clause in v:
            bad.setdefault(clause, []).append(tr['origin'])
    for clause, where in sorted(bad.items()):
        rep.drift('clustering (beyond the listed properties): %s failed on %d of %d recorded runs, e.g. %s' % (clause, len(where), len(traces), where[0]))
    rep.cov['clustering_runs_judged'] = len(traces)
    rep.cov['clustering_clauses_failed'] = {k: len(v) for k, v in bad.items()}
