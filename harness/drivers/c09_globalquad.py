"""C09 - global adaptive 1-D quadrature rules are exact on every refinement-tree grid.

spec/TreeQuad.tla: the reachable states are the refinement trees (midpoint splits of [0, LAT]); the trapezoidal weights
(boundary / zero boundary / modified basis) are specified as exact integrals of the piecewise-linear interpolant and kept in
the state (rationals); TLC checks the exactness identities on every tree.  One implementation test per tree x box x flags:
GlobalTrapezoidalGrid weights against the spec rationals, independence of the level assignment.  Residual (harness):
moment identities for the high-order, Simpson, Lagrange and B-spline global rules."""
import json
import random
from fractions import Fraction

import numpy as np

from harness.engine import impl, tlc
from harness.engine.report import Report

PROP = 'C09'
LAT = 64
BOXES = [(0.0, 1.0), (-3.0, 6.5), (2.0, 2.5)]
INVS = ['C09_SumIsLength', 'C09_NonNegative', 'C09_LinearExact', 'C09_ModifiedExact', 'C15_UniformIsTrapezoid', 'C15_SumOne', 'C15_NonNegative', 'C15_TriangleMean']


def mc(rep, tier, tag, warp=False):
    # small lattice for the warped grids (32-bit TLC integers)
    cfg = 'SPECIFICATION Spec\nCONSTANTS LAT = %d\n MAXSPLITS = %d\n WARP = %s\n' % (16 if warp else LAT, (4 if tier == 'quick' else 5) if warp else (5 if tier == 'quick' else 7), 'TRUE' if warp else 'FALSE') + ''.join('INVARIANT %s\n' % i for i in INVS) + 'CHECK_DEADLOCK FALSE\n'
    r, g = tlc.run('TreeQuad', cfg, tag, dump=True, timeout=3000)
    rep.tlc('TreeQuad %s warp=%s' % (tier, warp), r)
    if r.violated:
        raise tlc.TLCError('TreeQuad.tla violates %s' % r.violated)
    if r.action_counts.get('Split', (0, 0))[1] == 0:
        raise tlc.TLCError('vacuous: Split never taken')
    return g


def fr(q):
    return Fraction(q[0], q[1])


class PolyF:
    """vector-valued polynomial test function x^0 .. x^K (first coordinate) as a sparseSpACE Function"""

    def __new__(cls, K):
        from sparseSpACE.Function import Function

        class P(Function):
            def output_length(self):
                return K + 1

            def eval(self, coords):
                return np.array([float(coords[0]) ** k for k in range(K + 1)])
        return P()


REUSE = {}      # grid objects kept across trees: every other tree is evaluated on an object that has already served other trees


def reused(key, make, turn):
    if turn % 3 == 0:
        return make()
    if key not in REUSE:
        REUSE[key] = make()
    return REUSE[key]


OWNED = {}


def owned(key, xs, lev, turn):
    """every third tree a re-used grid object is handed containers the CALLER keeps and rewrites in place (the same list objects as in the
    previous call, new content); otherwise fresh containers"""
    if turn % 3 != 2:
        return [list(xs)], [list(lev)]
    if key not in OWNED:
        OWNED[key] = ([[]], [[]])
    cx, cl = OWNED[key]
    cx[0][:] = list(xs)
    cl[0][:] = list(lev)
    return cx, cl


def test_tree(rep, st, tier, rng, warp=False):
    import sparseSpACE.Grid as G
    LX = 16 * (16 + 16) if warp else LAT
    pos = [p * (p + 16) if warp else p for p in st['pos']]
    lev = list(st['lev'])
    n = len(pos)
    w2 = list(st['w2'])
    wmod = [fr(q) for q in st['wmod']] if st['wmod'] else None
    for (a, b) in (BOXES if tier == 'thorough' else BOXES[:2]):
        xs = [a + (b - a) * p / LX for p in pos]
        unit = (b - a) / LX
        case = {'positions': pos, 'levels': lev, 'box': [a, b]}
        sig = {'npoints': n}

        def fail(clause, what, **kw):
            rep.violation(clause, dict(sig, **kw.pop('sig', {})), dict(case, **kw), what='tree %s on [%s,%s]: %s' % (pos, a, b, what))
        # ---- trapezoidal family against the spec rationals
        for bnd, mod in ((True, False), (False, False), (False, True)):
            try:
                grid = reused(('trap', a, b, bnd, mod, warp), lambda: G.GlobalTrapezoidalGrid(a=np.array([a]), b=np.array([b]), boundary=bnd, modified_basis=mod), st.get('_turn', 0))
                with impl.quiet():
                    if st.get('_turn', 0) % 3 == 2:
                        grid.set_grid(*owned(('trap', a, b, bnd, mod, warp), xs, lev, 2))
                    else:
                        grid.set_grid([np.array(xs)], [np.array(lev)])
                w = [float(v) for v in grid.weights[0]]
                with impl.quiet():
                    grid.set_grid([np.array(xs)], [np.array([0] + [1] * (n - 2) + [0])])
                w_alt = [float(v) for v in grid.weights[0]]
            except Exception as ex:
                fail('C09_NoException', 'GlobalTrapezoidalGrid(boundary=%s, modified=%s) raised %r' % (bnd, mod, ex), exception=repr(ex), sig={'family': 'trapezoid', 'modified': mod})
                continue
            if mod:
                exp = [float(q) * unit for q in wmod][1:-1]
            elif bnd:
                exp = [v * unit / 2 for v in w2]
            else:
                exp = [v * unit / 2 for v in w2][1:-1]
            ok = len(w) == len(exp) and all(abs(x - y) <= 1e-12 * max(1.0, abs(y)) for x, y in zip(w, exp))
            rep.count(1, key=('trap', tuple(pos), a, b, bnd, mod))
            if not ok:
                fail('C09_TrapezoidIsInterpolantIntegral', 'boundary=%s modified=%s weights %s differ from the exact integral of the interpolant %s' % (bnd, mod, w, exp),
                     weights=w, expected=exp, sig={'family': 'trapezoid', 'boundary': bnd, 'modified': mod})
            if w != w_alt:
                fail('C09_DependsOnlyOnPoints', 'weights change with the level assignment (boundary=%s modified=%s)' % (bnd, mod), sig={'family': 'trapezoid'})
            if not mod and any(v < 0 for v in w):
                fail('C09_NonNegative', 'negative weight (boundary=%s)' % bnd, sig={'family': 'trapezoid'})
        # ---- residual: moment identities of the other global rules (harness, float)
        moments = lambda K: [(b ** (k + 1) - a ** (k + 1)) / (k + 1) for k in range(K + 1)]
        rules = [('simpson', lambda: G.GlobalSimpsonGrid(a=np.array([a]), b=np.array([b]), boundary=True), 1, 'weights'),
                 ('highorder', lambda: G.GlobalHighOrderGrid(a=np.array([a]), b=np.array([b]), boundary=True, max_degree=5), 1, 'weights'),   # the rule chooses its own degree; only constants and linears are demanded
                 ('highorder-nnls', lambda: G.GlobalHighOrderGrid(a=np.array([a]), b=np.array([b]), boundary=True, max_degree=5, do_nnls=True), 1, 'weights'),
                 ('highorder-nosplit', lambda: G.GlobalHighOrderGrid(a=np.array([a]), b=np.array([b]), boundary=True, max_degree=5, split_up=False), 1, 'weights'),
                 ('highorder-deg3', lambda: G.GlobalHighOrderGrid(a=np.array([a]), b=np.array([b]), boundary=True, max_degree=3), 1, 'weights'),
                 ('highorder-deg2-nosplit', lambda: G.GlobalHighOrderGrid(a=np.array([a]), b=np.array([b]), boundary=True, max_degree=2, split_up=False), 1, 'weights'),
                 ('lagrange2', lambda: G.GlobalLagrangeGrid(a=np.array([a]), b=np.array([b]), boundary=True, p=2), 2, 'integrate'),
                 ('lagrange3', lambda: G.GlobalLagrangeGrid(a=np.array([a]), b=np.array([b]), boundary=True, p=3), 3, 'integrate'),
                 ('bspline3', lambda: G.GlobalBSplineGrid(a=np.array([a]), b=np.array([b]), boundary=True, p=3), 3, 'integrate'),
                 ('bspline1', lambda: G.GlobalBSplineGrid(a=np.array([a]), b=np.array([b]), boundary=True, p=1), 1, 'integrate')]
        for name, mk, order, how in rules:
            K = min(order, 1) if n < order + 1 else order
            try:
                grid = reused((name, a, b, warp), mk, st.get('_turn', 0))
                with impl.quiet(), impl.watchdog(60):
                    grid.set_grid(*owned((name, a, b, warp), xs, lev, st.get('_turn', 0)))
                    if how == 'weights':
                        w = np.asarray(grid.weights[0], dtype=float)
                        got = [float(np.sum(w * np.asarray(xs) ** k)) for k in range(K + 1)]
                    elif how == 'weights_inner':
                        w = np.asarray(grid.weights[0], dtype=float)
                        got = [float(np.sum(w * np.asarray(xs[1:-1]) ** k)) for k in range(K + 1)] if len(w) == n - 2 else [float('nan')]
                    else:
                        got = [float(v) for v in grid.integrate(PolyF(K), [1], np.array([a]), np.array([b]))]
            except impl.Timeout:
                rep.exclude('%s on tree %s: timeout' % (name, pos))
                continue
            except Exception as ex:
                rep.residual('moments_%s' % name, False)
                fail('C09_NoException', '%s raised %r' % (name, ex), exception=repr(ex), sig={'family': name, 'exception': type(ex).__name__})
                continue
            exp = moments(K)
            scale = max(abs(a), abs(b), 1.0)
            bad = [k for k in range(K + 1) if abs(got[k] - exp[k]) > 1e-9 * scale ** (k + 1)]
            rep.residual('moments_%s' % name, not bad)
            rep.count(1, key=(name, tuple(pos), a, b))
            if bad:
                fail('C09_MomentsExact' if min(bad) <= 1 else 'C09_HighOrderMomentsExact', '%s: moments %s wrong (got %s, exact %s)' % (name, bad, [got[k] for k in bad], [exp[k] for k in bad]),
                     got=got, exact=exp, sig={'family': name, 'lowest_bad_degree': min(bad), 'complete_tree': len(set(st['pos'][i + 1] - st['pos'][i] for i in range(n - 1))) == 1 and not warp})
    rep.sample({'tree': pos, 'levels': lev, 'twice_trapezoid_weights': w2}, limit=3)


def run(tier, seed):
    rep = Report(PROP, tier, seed, 'model_checking')
    rng = random.Random(seed)
    g = mc(rep, tier, 'c09')
    turn = 0
    for sid in sorted(g.states):
        turn += 1
        g.states[sid]['_turn'] = turn
        test_tree(rep, g.states[sid], tier, rng)
    gw = mc(rep, tier, 'c09', warp=True)      # strongly graded grids with non-dyadic split ratios
    for sid in sorted(gw.states):
        turn += 1
        gw.states[sid]['_turn'] = turn
        test_tree(rep, gw.states[sid], tier, rng, warp=True)
    rep.cov['spec_states_tested_on_impl'] = len(g.states) + len(gw.states)
    rep.cov['exhaustive'] = True
    rep.cov['rule'] = ('every reachable refinement tree of TreeQuad.tla (midpoint splits, <= %d splits) x boxes x (boundary, modified) flags; residual moment '
                       'identities for Simpson / high-order / Lagrange / B-spline global rules; distinct by (rule, tree, box, flags)' % (4 if tier == 'quick' else 6))
    rep.assumptions += ['TLC/SANY', 'float comparison 1e-12 (trapezoid weights vs spec rationals), 1e-9 relative (moment identities)']
    return rep.finish()


def replay(path, seed):
    print('re-run bin/check C09: the failing tree and box are recorded in %s' % path)
    return run('quick', seed)
