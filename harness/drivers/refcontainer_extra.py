"""Extension of the specification beyond the listed properties: spec/RefContainer.tla, the data type every adaptive strategy keeps its refinement
objects in (sparseSpACE/RefinementContainer.py).  (a) PROTOCOL = TRUE: the order of calls of SpatiallyAdaptivBase is model-checked with the
invariants that hold under it (running value = sum, the marker delimits exactly the children of the round, cursor discipline); (b) PROTOCOL = FALSE:
every method may be called in every state; every edge of that state graph is executed on a real RefinementContainer holding stub objects and the
complete abstract state (objects, totals, popArray, marker, cursor, return value, query results) is compared.  Differences are reported as DRIFT only;
called from the C13 check, which drives the adaptive loop anyway."""
from harness.engine import impl, tlc

CFG = ('SPECIFICATION Spec\nCONSTANTS MAXOBJ = %d\n MAXSTEPS = %d\n VALS = {0, 1, 2}\n EVS = {0, 1, 2}\n ERRS = {0, 2, 4}\n TOLS = {0, 2, 4}\n PROTOCOL = %s\n'
       'INVARIANT T_Types\nINVARIANT T_IdsDistinct\nINVARIANT P_SelectedOnce\n%sCHECK_DEADLOCK FALSE\n')
PROTO_INVS = ''.join('INVARIANT %s\n' % i for i in ('P_ValueIsSum', 'P_NewAreChildren', 'P_CursorBeforeNew', 'P_MarkerAfterRemove', 'P_EvaluateOnlyNew'))


def make_container():
    from sparseSpACE.RefinementContainer import RefinementContainer
    from sparseSpACE.RefinementObject import RefinementObject

    counter = [3]

    class Stub(RefinementObject):
        def __init__(self, ident):
            RefinementObject.__init__(self, None)
            self.ident, self.value, self.evaluations, self.error, self.benefit = ident, 0, 0, 0, 0
            self.next_error = 0

        def refine(self):
            a, b = Stub(counter[0]), Stub(counter[0] + 1)
            counter[0] += 2
            return [a, b], None, None

    class Estimator:
        def calc_error(self, obj, norm, volume_weights=None):
            return obj.next_error
    return RefinementContainer([Stub(1), Stub(2)], 1, Estimator())


def project(c, ret):
    objs = tuple((o.ident, int(o.value), int(o.evaluations), int(o.error), int(o.benefit)) for o in c.get_objects())
    q = (c.size(), c.new_objects_size(), tuple(o.ident for o in c.get_new_objects()), int(c.get_max_benefit()), int(c.get_total_error()), int(c.get_max_error()))
    return {'objs': objs, 'value': int(c.value), 'evals': int(c.evaluationstotal), 'pop': tuple(int(x) for x in c.popArray), 'startNew': int(c.startNewObjects),
            'search': int(c.searchPosition), 'ret': ret, 'q': q}


def spec_state(s):
    objs = tuple((int(o['id']), int(o['val']), int(o['ev']), int(o['err']), int(o['ben'])) for o in s['objs'])
    sn = int(s['startNew'])
    q = (len(objs), len(objs) - sn, tuple(o[0] for o in objs[sn:]), max([o[4] for o in objs] + [0]), sum(o[3] for o in objs), max([o[3] for o in objs] + [0]))
    r = s['ret']
    return {'objs': objs, 'value': int(s['value']), 'evals': int(s['evals']), 'pop': tuple(int(x) for x in s['pop']), 'startNew': sn, 'search': int(s['search']),
            'ret': (r['k'], int(r['a']), int(r['b'])), 'q': q}


def apply(c, s, t):
    """execute on the real container the call that leads from spec state s to spec state t (recovered from the state difference)"""
    so, to = s['objs'], t['objs']
    k = t['ret']['k']
    if k == 'refine':
        p = int(t['pop'][-1])
        _, new = c.refine(p)
        return ('refine', new[0].ident, new[1].ident)
    if k == 'removed':
        removed = c.apply_remove()
        return ('removed', len(removed), 0)
    if k == 'next':
        # the tolerance is not part of the state: try the tolerances of the model until the recorded answer is reproduced on a copy
        import copy
        for tol in (0, 2, 4):
            c2 = copy.deepcopy(c)
            found, pos, obj = c2.get_next_object_for_refinement(tol)
            ans = ('next', int(pos) if found else -1, int(obj.ident) if found else 0)
            if ans == (k, int(t['ret']['a']), int(t['ret']['b'])) and c2.searchPosition == int(t['search']):
                found, pos, obj = c.get_next_object_for_refinement(tol)
                return ans
        found, pos, obj = c.get_next_object_for_refinement(0)
        return ('next', int(pos) if found else -1, int(obj.ident) if found else 0)
    # state-changing calls without a return value
    if len(so) == len(to):
        for i, (a, b) in enumerate(zip(so, to)):
            if a != b:
                if a['val'] != b['val']:
                    c.set_value(i, int(b['val']))
                elif a['ev'] != b['ev']:
                    c.set_evaluations(i, int(b['ev']))
                elif a['err'] != b['err']:
                    c.get_object(i).next_error = int(b['err'])
                    c.calc_error(i, 2)
                else:
                    c.set_benefit(i)
                return ('none', 0, 0)
    same_objs = len(so) == len(to)
    if same_objs and (int(t['value']), int(t['evals']), int(t['startNew'])) == (0, 0, 0) and (int(s['value']) != 0 or int(s['evals']) != 0) \
            and not (int(s['startNew']) == 0 and (int(t['value']) - int(s['value']) > 0 or int(t['evals']) - int(s['evals']) > 0)):
        c.reinit_new_objects()
    elif int(t['value']) != int(s['value']):
        # set_value with the value the object already has: the total still grows
        d = int(t['value']) - int(s['value'])
        i = next((i for i, o in enumerate(so) if int(o['val']) == d), None)
        if i is None:
            return None
        c.set_value(i, d)
    elif int(t['evals']) != int(s['evals']):
        d = int(t['evals']) - int(s['evals'])
        i = next((i for i, o in enumerate(so) if int(o['ev']) == d), None)
        if i is None:
            return None
        c.set_evaluations(i, d)
    elif int(t['startNew']) != int(s['startNew']):
        if int(t['startNew']) == len(to):
            c.clear_new_objects()
        else:
            c.reinit_new_objects()
    elif int(t['search']) != int(s['search']):
        c.refinement_postprocessing()
    else:
        return None      # a call that changes nothing in this state (several methods qualify): not replayed
    return ('none', 0, 0)


def run(rep, tier):
    depth = 3 if tier == 'quick' else 4
    r, _ = tlc.run('RefContainer', CFG % (10, 22 if tier == 'quick' else 26, 'TRUE', PROTO_INVS), 'refc', timeout=1500)
    rep.tlc('RefContainer protocol of the adaptive driver', r)
    if r.violated:
        raise tlc.TLCError('RefContainer.tla (protocol) violates %s' % r.violated)
    r, g = tlc.run('RefContainer', CFG % (6, depth, 'FALSE', ''), 'refc', dump=True, timeout=1500)
    rep.tlc('RefContainer all call sequences of depth %d' % depth, r)
    if r.violated:
        raise tlc.TLCError('RefContainer.tla (API) violates %s' % r.violated)
    if r.distinct < 1000:
        raise tlc.TLCError('vacuous: RefContainer has %d states' % r.distinct)
    init = g.init[0]
    pred, order, seen, out = {}, [init], {init}, {}
    for s, d, _ in g.edges:
        out.setdefault(s, []).append(d)
    i = 0
    while i < len(order):
        s = order[i]
        i += 1
        for d in out.get(s, []):
            if d not in seen:
                seen.add(d)
                pred[d] = s
                order.append(d)
    replayed = differing = skipped = 0
    for s, d, _ in g.edges:
        if s == d:
            continue
        path, x = [], s
        while x != init:
            path.append(x)
            x = pred[x]
        path = [init] + path[::-1] + [d]
        with impl.quiet():
            c = make_container()
            ret = ('none', 0, 0)
            ok = True
            for u, v in zip(path[:-1], path[1:]):
                try:
                    ret = apply(c, g.states[u], g.states[v])
                except Exception as ex:
                    ok = False
                    rep.drift('I_RefContainerEdge', 'call towards %s raised %r' % (g.states[v]['ret'], ex))
                    break
                if ret is None:
                    break
        if ret is None:
            skipped += 1
            continue
        replayed += 1
        if ok and project(c, ret) != spec_state(g.states[d]):
            differing += 1
            if differing <= 5:
                rep.drift('I_RefContainerEdge', 'after %s: implementation %s, specification %s' % (g.states[d]['ret'], project(c, ret), spec_state(g.states[d])))
    rep.cov['refcontainer_edges_replayed'] = replayed
    rep.cov['refcontainer_edges_differing'] = differing
    rep.cov['refcontainer_edges_not_identifiable'] = skipped
    return replayed, differing
