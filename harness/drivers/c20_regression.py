"""C20 - regression solves the regularised least-squares problem on every component grid.

Model: spec/HatSystems.tla (stiffness = gradient Gram matrix, hat values) - TLC checks symmetry and positive semi-definiteness
of the smoothing matrix on every enumerated grid.  Binding: (A) one implementation test per grid state of the model:
build_C_matrix / build_C_matrix_dimension_wise against the exact gradient Gram matrix, build_A_matrix(_dimension_wise) against
the exact hat values at the training points; (B) Regression objects constructed with DEFAULT arguments, trained with the
standard and the dimension-wise strategy for several data sets / regularisation values / matrix choices: the surpluses of
every component grid must satisfy the normal equations of the stated problem; every coefficient optimisation variant must
return coefficients that sum to one."""
import itertools
import json
import random
from fractions import Fraction

import numpy as np

from harness.engine import impl, tlc
from harness.engine.report import Report
from harness.drivers import c16_density as H

PROP = 'C20'
LAT = H.LAT


def uniform_level(g):
    steps = {g[i + 1] - g[i] for i in range(len(g) - 1)}
    return int(round(np.log2(LAT // g[1]))) if len(steps) == 1 else None


def exact_hats(coords, X):
    """hat values (len(X), n) for the tensor hats at the inner points of coords (first dimension slowest)"""
    D = len(coords)
    inner = [list(range(1, len(c) - 1)) for c in coords]
    order = list(itertools.product(*inner))
    out = np.ones((len(X), len(order)))
    for j, p in enumerate(order):
        for d in range(D):
            c = coords[d]
            xl, xm, xr = c[p[d] - 1], c[p[d]], c[p[d] + 1]
            v = np.where(X[:, d] <= xm, (X[:, d] - xl) / (xm - xl), (xr - X[:, d]) / (xr - xm))
            out[:, j] *= np.clip(v, 0.0, None)
    return out


def exact_stiffness(coords):
    D = len(coords)
    inner = [list(range(1, len(c) - 1)) for c in coords]
    order = list(itertools.product(*inner))

    def m1(c, i, j):
        if i == j:
            return (c[i + 1] - c[i - 1]) / 3.0
        if abs(i - j) == 1:
            return abs(c[j] - c[i]) / 6.0
        return 0.0

    def s1(c, i, j):
        if i == j:
            return 1.0 / (c[i] - c[i - 1]) + 1.0 / (c[i + 1] - c[i])
        if abs(i - j) == 1:
            return -1.0 / abs(c[j] - c[i])
        return 0.0
    n = len(order)
    C = np.zeros((n, n))
    for a, p in enumerate(order):
        for b, q in enumerate(order):
            tot = 0.0
            for k in range(D):
                t = 1.0
                for d in range(D):
                    t *= s1(coords[d], p[d], q[d]) if d == k else m1(coords[d], p[d], q[d])
                tot += t
            C[a, b] = tot
    return C


def matrices(rep, states, tier, rng):
    from sparseSpACE.GridOperation import Regression
    from sparseSpACE.Grid import GlobalTrapezoidalGrid, TrapezoidalGrid
    for st in states:
        D = st['dim']
        order, grids = H.point_order(st)
        _, stiff, _ = H.state_matrices(st)
        scaleS = Fraction(LAT) ** (2 - D)     # stiffness in real units: (1/h) in the derivative dimension, h in the others
        S = np.array([[float(stiff[(p, q)] * scaleS) for q in order] for p in order])
        coords = [[p / LAT for p in g] for g in grids]
        levels = [H.tree_levels(g) for g in grids]
        n = len(order)
        case = {'dim': D, 'grid': grids}
        X = np.array([[rng.randint(0, 16) / 16.0 for _ in range(D)] for _ in range(12)] + [[0.5] * D, [0.25] * D], dtype=float)
        y = X.sum(axis=1)

        def fail(clause, what, **kw):
            rep.violation(clause, dict({'dim': D}, **kw.pop('sig', {})), dict(case, **kw), what='grid %s: %s' % (grids, what))
        try:
            with impl.quiet():
                op = Regression(np.array(X), np.array(y), 0.1, 'C', rangee=(0.0, 1.0))
            op.training_data = np.array(op.data)
            op.training_target_values = np.array(op.target_values)
            TX = np.asarray(op.training_data, dtype=float)
            op.grid = GlobalTrapezoidalGrid(a=np.zeros(D), b=np.ones(D), boundary=False)
            with impl.quiet(), impl.watchdog(120):
                op.grid.set_grid(coords, levels)
                Cd = np.asarray(op.build_C_matrix_dimension_wise(coords, levels), dtype=float)
                Ad = np.asarray(op.build_A_matrix_dimension_wise(coords, levels), dtype=float)
                # assembled a second time on the same object: the first assembly must not have left anything behind
                Cd_first, Ad_first = Cd.copy(), Ad.copy()
                Cd2 = np.asarray(op.build_C_matrix_dimension_wise(coords, levels), dtype=float)
                Ad2 = np.asarray(op.build_A_matrix_dimension_wise(coords, levels), dtype=float)
                if Cd2.shape != Cd_first.shape or not np.allclose(Cd2, Cd_first, rtol=1e-13, atol=1e-15) or not np.array_equal(Cd, Cd_first):
                    Cd = Cd2 + np.nan      # reported below as a deviation from the gradient Gram matrix
                if Ad2.shape != Ad_first.shape or not np.allclose(Ad2, Ad_first, rtol=1e-13, atol=1e-15) or not np.array_equal(Ad, Ad_first):
                    Ad = Ad2 + np.nan
        except impl.Timeout:
            rep.exclude('timeout %s' % case)
            continue
        except Exception as ex:
            fail('C20_NoException', 'dimension-wise matrix assembly raised %r' % ex, exception=repr(ex), sig={'exception': type(ex).__name__, 'variant': 'dimension-wise'})
            continue
        rep.count(1, key='dw' + json.dumps(case))
        if Cd.shape != (n, n) or not np.allclose(Cd, S, rtol=1e-10, atol=1e-12):
            fail('C20_SmoothingIsGradientGram', 'build_C_matrix_dimension_wise differs from the gradient Gram matrix (max deviation %r)' % (float(np.max(np.abs(Cd - S))) if Cd.shape == (n, n) else Cd.shape),
                 sig={'variant': 'dimension-wise', 'uniform': all(uniform_level(g) is not None for g in grids), 'interior_points_gt_2': n > 2})
        elif not np.allclose(Cd, Cd.T) or np.min(np.linalg.eigvalsh(0.5 * (Cd + Cd.T))) < -1e-9:
            fail('C20_SmoothingSymmetricPSD', 'smoothing matrix is not symmetric positive semi-definite', sig={'variant': 'dimension-wise'})
        Aexp = exact_hats(coords, TX)
        if Ad.shape != Aexp.shape or not np.allclose(Ad, Aexp, rtol=1e-12, atol=1e-14):
            fail('C20_DesignMatrixIsBasisValues', 'build_A_matrix_dimension_wise differs from the basis values at the training points', sig={'variant': 'dimension-wise'})
        lv = [uniform_level(g) for g in grids]
        if all(l is not None and l >= 1 for l in lv):
            try:
                with impl.quiet():
                    op2 = Regression(np.array(X), np.array(y), 0.1, 'C', rangee=(0.0, 1.0))
                op2.training_data = np.array(op2.data)
                op2.training_target_values = np.array(op2.target_values)
                op2.grid.numPoints = 2 ** np.asarray(lv, dtype=int) - 1
                with impl.quiet(), impl.watchdog(120):
                    Cu = np.asarray(op2.build_C_matrix(lv), dtype=float)
                    Au = np.asarray(op2.build_A_matrix(lv), dtype=float)
                    Cu_first, Au_first = Cu.copy(), Au.copy()
                    Cu2 = np.asarray(op2.build_C_matrix(lv), dtype=float)
                    Au2 = np.asarray(op2.build_A_matrix(lv), dtype=float)
                    if Cu2.shape != Cu_first.shape or not np.allclose(Cu2, Cu_first, rtol=1e-13, atol=1e-15) or not np.array_equal(Cu, Cu_first):
                        Cu = Cu2 + np.nan
                    if Au2.shape != Au_first.shape or not np.allclose(Au2, Au_first, rtol=1e-13, atol=1e-15) or not np.array_equal(Au, Au_first):
                        Au = Au2 + np.nan
            except Exception as ex:
                fail('C20_NoException', 'uniform matrix assembly raised %r' % ex, exception=repr(ex), sig={'exception': type(ex).__name__, 'variant': 'uniform'})
                continue
            rep.count(1, key='uni' + json.dumps(case))
            if Cu.shape != (n, n) or not np.allclose(Cu, S, rtol=1e-10, atol=1e-12):
                fail('C20_SmoothingIsGradientGram', 'build_C_matrix(%s) differs from the gradient Gram matrix (max deviation %r)' % (lv, float(np.max(np.abs(Cu - S))) if Cu.shape == (n, n) else Cu.shape),
                     sig={'variant': 'uniform', 'isotropic': len(set(lv)) == 1})
            if Au.shape != Aexp.shape or not np.allclose(Au, Aexp, rtol=1e-12, atol=1e-14):
                fail('C20_DesignMatrixIsBasisValues', 'build_A_matrix(%s) differs from the basis values at the training points' % lv, sig={'variant': 'uniform'})


def datasets(rng, D, n, kind):
    r = np.random.RandomState(rng.randint(0, 10 ** 6))
    if kind == 'lattice':
        X = r.randint(-10, 1, (n, D)).astype(float)       # integer features: scaled coordinates fall on grid coordinates
    else:
        X = r.rand(n, D) * 4 - 1
    y = np.sin(X.sum(axis=1)) + 0.1 * X[:, 0] ** 2
    return X, y


def check_round(rep, op, combi, name, strategy, lam, mat, D):
    TX = np.asarray(op.training_data, dtype=float)
    ty = np.asarray(op.training_target_values, dtype=float)
    m = len(ty)
    worst = 0.0
    ngr = 0
    for g in combi.scheme:
        lv = tuple(int(x) for x in g.levelvector)
        alphas = np.asarray(op.surpluses[lv], dtype=float).flatten()
        if strategy == 'standard':
            coords = [[k / 2 ** l for k in range(2 ** l + 1)] for l in lv]
        else:
            with impl.quiet():
                c, _, _ = combi.get_point_coord_for_each_dim(list(lv))
            coords = [list(map(float, x)) for x in c]
        A = exact_hats(coords, TX)
        if A.shape[1] != len(alphas):
            rep.violation('C20_NormalEquations', {'strategy': strategy, 'shape': True}, {'case': name, 'levelvec': lv}, what='%s %s grid %s: %d surpluses for %d basis functions' % (name, strategy, lv, len(alphas), A.shape[1]))
            continue
        if lam == 0:
            res = A.T @ (A @ alphas - ty) / m
        else:
            M = exact_stiffness(coords) if mat == 'C' else np.eye(A.shape[1])
            res = (A.T @ A / m + lam * M) @ alphas - A.T @ ty / m
        scale = max(1.0, float(np.max(np.abs(A.T @ ty / m))))
        worst = max(worst, float(np.max(np.abs(res))) / scale)
        ngr += 1
    rep.count(1, key=(name, strategy))
    rep.residual('normal_equations_%s' % strategy, worst <= 1e-8)
    rep.sample({'case': name, 'strategy': strategy, 'component_grids': ngr, 'max_normal_equation_residual': worst}, limit=4)
    if worst > 1e-8:
        rep.violation('C20_NormalEquations', {'strategy': strategy, 'matrix': mat, 'lambda_zero': lam == 0, 'D': D, 'retrained': 'training on the same object' in name}, {'case': name, 'max_residual': worst},
                      what='%s, %s training: surpluses violate the normal equations (relative residual %r)' % (name, strategy, worst))


def training(rep, tier, rng):
    from sparseSpACE.GridOperation import Regression
    cases = [(1, 'random', 0.0, 'C', 1, 3), (2, 'random', 0.0, 'C', 1, 3), (2, 'random', 0.01, 'I', 1, 3), (2, 'lattice', 0.01, 'C', 1, 3), (2, 'random', 0.1, 'C', 2, 3), (1, 'lattice', 0.001, 'C', 1, 4)]
    if tier == 'thorough':
        cases += [(3, 'random', 0.01, 'I', 1, 3), (3, 'random', 0.01, 'C', 1, 4), (2, 'lattice', 0.0, 'C', 1, 4), (3, 'random', 0.0, 'C', 1, 2), (2, 'random', 1.0, 'C', 1, 4), (1, 'random', 0.1, 'I', 2, 5)]
    for D, kind, lam, mat, lmin, lmax in cases:
        X, y = datasets(rng, D, 60 if D < 3 else 90, kind)
        name = 'D=%d %s data lambda=%s matrix=%s levels (%d,%d)' % (D, kind, lam, mat, lmin, lmax)
        for strategy in ('standard', 'dimension-wise'):
            try:
                with impl.quiet(), impl.watchdog(600):
                    op = Regression(np.array(X), np.array(y), lam, mat)          # DEFAULT construction arguments (rangee, grid)
                    if strategy == 'standard':
                        combi = op.train(0.2, lmin, lmax)
                    else:
                        combi = op.train_spatially_adaptive(0.2, 0.9, 0.0, 60 if tier == 'quick' else 150)
            except impl.Timeout:
                rep.exclude('%s %s: timeout' % (name, strategy))
                continue
            except Exception as ex:
                rep.violation('C20_NoException', {'stage': 'train', 'strategy': strategy, 'exception': type(ex).__name__, 'default_arguments': True}, {'case': name, 'exception': repr(ex)},
                              what='%s, %s training with default constructor arguments raised %r' % (name, strategy, ex))
                continue
            rounds = [('first training', combi)]
            if strategy == 'standard':
                # the same object trained again with another split / level range: nothing may be carried over
                try:
                    with impl.quiet(), impl.watchdog(600):
                        rounds.append(('second training (test share 0.5)', op.train(0.5, lmin, lmax)))
                        check_round(rep, op, rounds[-1][1], name + ', second training on the same object', strategy, lam, mat, D)
                        rounds.append(('third training (one more level)', op.train(0.5, lmin, lmax + 1)))
                        check_round(rep, op, rounds[-1][1], name + ', third training on the same object', strategy, lam, mat, D)
                        combi = op.train(0.2, lmin, lmax)
                except impl.Timeout:
                    rep.exclude('%s retraining: timeout' % name)
            else:
                # the same object trained again by the dimension-wise strategy with another split, then with noisy targets: the surpluses must
                # solve the problem of the CURRENT training set (nothing fitted to an earlier one may be carried over)
                try:
                    with impl.quiet(), impl.watchdog(600):
                        cb2 = op.train_spatially_adaptive(0.4, 0.9, 0.0, 60 if tier == 'quick' else 150)
                    check_round(rep, op, cb2, name + ', second training on the same object', strategy, lam, mat, D)
                    with impl.quiet(), impl.watchdog(600):
                        cb3 = op.train_spatially_adaptive(0.4, 0.9, 0.0, 60 if tier == 'quick' else 150, noisy_data=True)
                    check_round(rep, op, cb3, name + ', third training on the same object (noisy targets)', strategy, lam, mat, D)
                    with impl.quiet(), impl.watchdog(600):
                        combi = op.train_spatially_adaptive(0.2, 0.9, 0.0, 60 if tier == 'quick' else 150)
                except impl.Timeout:
                    rep.exclude('%s dimension-wise retraining: timeout' % name)
                except Exception as ex:
                    rep.violation('C20_NoException', {'stage': 'retrain', 'strategy': strategy, 'exception': type(ex).__name__}, {'case': name, 'exception': repr(ex)},
                                  what='%s, dimension-wise retraining on the same object raised %r' % (name, ex))
            check_round(rep, op, combi, name, strategy, lam, mat, D)
            # coefficient optimisation variants
            for option in (1, 2, 3):
                try:
                    with impl.quiet(), impl.watchdog(600):
                        op_o = Regression(np.array(X), np.array(y), lam, mat)
                        if strategy == 'standard':
                            cb = op_o.train(0.2, lmin, lmax)
                            op_o.optimize_coefficients(cb, option)
                        else:
                            cb = op_o.train_spatially_adaptive(0.2, 0.9, 0.0, 60)
                            op_o.optimize_coefficients_spatially_adaptive(cb, option)
                    tot = float(sum(float(np.sum(g.coefficient)) for g in cb.scheme))
                    ok = abs(tot - 1.0) <= 1e-9
                    rep.residual('opticom_sum_one', ok)
                    rep.count(1, key=(name, strategy, 'opt', option))
                    if not ok:
                        rep.violation('C20_CoefficientsSumToOne', {'strategy': strategy, 'option': option}, {'case': name, 'sum': tot}, what='%s %s optimisation variant %d: coefficients sum to %r' % (name, strategy, option, tot))
                except impl.Timeout:
                    rep.exclude('%s %s opticom %d: timeout' % (name, strategy, option))
                except Exception as ex:
                    rep.violation('C20_NoException', {'stage': 'opticom', 'strategy': strategy, 'option': option, 'lambda_zero': lam == 0, 'exception': type(ex).__name__},
                                  {'case': name, 'exception': repr(ex)}, what='%s %s optimisation variant %d raised %r' % (name, strategy, option, ex))


def run(tier, seed):
    rep = Report(PROP, tier, seed, 'model_checking')
    rng = random.Random(seed)
    cfg = ('SPECIFICATION Spec\nCONSTANTS LAT = %d\n GRIDS <- %s\n DATASETS <- MCData1\n MAXD = 2\n MAXPTS = 100000\nINVARIANT C16_Symmetric\nINVARIANT C20_StiffSemiPositive\nCHECK_DEADLOCK FALSE\n'
           % (LAT, 'MCGrids' if tier == 'quick' else 'MCGridsBig'))
    r, g = tlc.run('MC_HatSystems', cfg, 'c20', dump=True, timeout=3000)
    rep.tlc('HatSystems (stiffness) ' + tier, r)
    if r.violated:
        raise tlc.TLCError('HatSystems.tla violates %s' % r.violated)
    states = [g.states[k] for k in sorted(g.states)]
    # three dimensions: uniform grids of levels 1 and 2 (pair loops that are banded in one and two dimensions are not in three)
    cfg3 = ('SPECIFICATION Spec\nCONSTANTS LAT = %d\n GRIDS <- MCGrids3\n DATASETS <- MCData3\n MAXD = 3\n MAXPTS = 100000\nINVARIANT C16_Symmetric\nINVARIANT C20_StiffSemiPositive\nCHECK_DEADLOCK FALSE\n' % LAT)
    r3, g3 = tlc.run('MC_HatSystems', cfg3, 'c20d3', dump=True, timeout=3000)
    rep.tlc('HatSystems (stiffness) three dimensions', r3)
    if r3.violated:
        raise tlc.TLCError('HatSystems.tla violates %s (D=3)' % r3.violated)
    seen3 = set()
    for k in sorted(g3.states):
        st3 = g3.states[k]
        key3 = json.dumps([list(x) for x in st3['grid']])
        if st3['dim'] == 3 and key3 not in seen3:
            seen3.add(key3)
            states.append(st3)
    # three dimensions, anisotropic level vectors up to level 3 (at most 21 inner points, e.g. (2,3,1), (1,2,3), (3,1,2))
    cfg3b = ('SPECIFICATION Spec\nCONSTANTS LAT = %d\n GRIDS <- MCGrids3b\n DATASETS <- MCData3\n MAXD = 3\n MAXPTS = 21\nINVARIANT C16_Symmetric\nCHECK_DEADLOCK FALSE\n' % LAT)
    r3b, g3b = tlc.run('MC_HatSystems', cfg3b, 'c20d3b', dump=True, timeout=3000)
    rep.tlc('HatSystems (stiffness) three dimensions, anisotropic', r3b)
    if r3b.violated:
        raise tlc.TLCError('HatSystems.tla violates %s (D=3 anisotropic)' % r3b.violated)
    for k in sorted(g3b.states):
        st3 = g3b.states[k]
        key3 = json.dumps([list(x) for x in st3['grid']])
        if st3['dim'] == 3 and key3 not in seen3 and len({len(x) for x in st3['grid']}) > 1:
            seen3.add(key3)
            states.append(st3)
    matrices(rep, states, tier, rng)
    rep.cov['spec_states_tested_on_impl'] = len(states)
    training(rep, tier, rng)
    rep.cov['rule'] = ('(A) every grid state of HatSystems.tla (D=1,2 tensor grids of refinement-tree grids, D=3 uniform grids of levels 1-2): smoothing and design matrices of the uniform and dimension-wise variants against '
                       'the exact values; (B) default-constructed Regression objects trained with both strategies on random and integer-lattice data for several (lambda, matrix, level range): '
                       'normal-equation residual per component grid, three coefficient optimisation variants; distinct by (grid) / (case, strategy, variant)')
    rep.assumptions += ['TLC/SANY', 'float comparison 1e-10 with the spec rationals; normal-equation residual 1e-8 relative', 'train/validation split as done by the library (random_state=1)']
    return rep.finish()


def replay(path, seed):
    print('re-run bin/check C20: the failing case is recorded in %s' % path)
    return run('quick', seed)
