"""C18 - DataSet transformations preserve the labelled samples.

spec/DataSet.tla (registers r1..r3, exact rational samples, scaling attributes, ghost `base`) is model-checked by
TLC; every edge of its graph is replayed on real DataSet objects (complete state compared -> drift), and every
execution (edge paths and longer random operation sequences on 1-D/2-D data) is validated by TLC against
spec/DataSetTrace.tla, which keeps the ghost base itself and evaluates every property clause."""
import copy
import json
import random
from fractions import Fraction

import numpy as np

from harness.engine import impl, tlc
from harness.engine.report import Report

PROP = 'C18'


def DS():
    from sparseSpACE.DEMachineLearning import DataSet
    return DataSet


def snapq(x):
    f = Fraction(float(x)).limit_denominator(5000)
    if abs(float(f) - float(x)) > 1e-9 * max(1.0, abs(float(x))):
        raise ValueError('value %r is not a small rational' % (x,))
    return [f.numerator, f.denominator]


def snapshot(ds, dim):
    if ds is None:
        return {'xs': [], 'ls': [], 'scaled': False, 'rng': [], 'factor': []}
    data = ds.get_data()
    X = np.asarray(data[0], dtype=float)
    n = ds.get_length() if X.size else 0
    xs = [[snapq(v) for v in np.atleast_1d(X[i])] for i in range(n)] if n else []
    ls = [int(v) for v in np.asarray(data[1]).tolist()] if n else []
    rng = []
    r = ds.get_scaling_range()
    if ds.is_scaled() and r is not None:
        lo, hi = r
        lo = np.broadcast_to(np.asarray(lo, dtype=float), (dim,))
        hi = np.broadcast_to(np.asarray(hi, dtype=float), (dim,))
        rng = [[snapq(lo[d]), snapq(hi[d])] for d in range(dim)]
    fac = []
    f = ds.get_scaling_factor()
    if ds.is_scaled() and f is not None:
        fac = [snapq(v) for v in np.broadcast_to(np.asarray(f, dtype=float), (dim,))]
    return {'xs': xs, 'ls': ls, 'scaled': bool(ds.is_scaled()), 'rng': rng, 'factor': fac}


def snapshot_xs(ds, dim):
    """snapshot of a data set whose labels need not be integers (split_one_vs_others): the labels are recorded by the caller"""
    import copy as _c
    d2 = _c.copy(ds)
    data = ds.get_data()
    n = ds.get_length()
    d2._data = (data[0], np.zeros(n, dtype=np.int64))
    return snapshot(d2, dim)


def make(xs, ls, dim):
    X = np.array(xs, dtype=float).reshape(len(xs), dim) if len(xs) else np.array([])
    return DS()((X, np.array(ls, dtype=np.int64)))


class Machine:
    """three registers of real DataSet objects driven by abstract operations"""

    def __init__(self, xs, ls, dim):
        self.dim = dim
        self.r = [make(xs, ls, dim), DS()(tuple([np.array([]), np.array([])])), DS()(tuple([np.array([]), np.array([])]))]

    def snap(self):
        return [snapshot(x, self.dim) for x in self.r]

    def typed(self, q, ntype):
        """the number q = <<num, den>> in the type the caller chooses: a float (default), a Python int, an integer or float array per dimension"""
        v = q[0] / q[1]
        if ntype == 'mixedarray':
            return np.array([v * ((-1) ** d) * (d + 1) for d in range(self.dim)], dtype=float)
        if q[1] != 1 or ntype in (None, 'float'):
            return np.array([v] * self.dim) if ntype == 'floatarray' else v
        if ntype == 'int':
            return int(q[0])
        if ntype == 'intarray':
            return np.array([int(q[0])] * self.dim)
        if ntype == 'mixedarray':
            # one value per dimension, of different sign and size (some axes mirrored, others not)
            return np.array([v * ((-1) ** d) * (d + 1) for d in range(self.dim)], dtype=float)
        return np.array([v] * self.dim)

    def apply(self, op, args):
        ev = {'op': op, 'args': dict(args), 'raised': False}
        r = self.r
        try:
            with impl.quiet(), impl.watchdog(30):
                if op == 'scale_range':
                    r[0].scale_range((args['lo'][0] / args['lo'][1], args['hi'][0] / args['hi'][1]), override_scaling=args['override'])
                elif op == 'scale_factor':
                    r[0].scale_factor(self.typed(args['f'], args.get('ntype')), override_scaling=args['override'])
                elif op == 'shift':
                    r[0].shift_value(self.typed(args['t'], args.get('ntype')), override_scaling=args['override'])
                elif op == 'revert':
                    r[0].revert_scaling()
                elif op == 'split_pieces':
                    n = r[0].get_length()
                    pct = 1.0 if args['k'] >= n else (args['k'] + 0.25) / n if n else 0.0
                    if n and round(n * pct) != args['k']:
                        pct = args['k'] / n
                    a, b = r[0].split_pieces(pct)
                    r[1], r[2] = a, b
                elif op == 'split_without_labels':
                    a, b = r[0].split_without_labels()
                    r[1], r[2] = a, b
                elif op == 'split_labels':
                    parts = r[0].split_labels()
                    labs = r[0].get_labels()
                    empty = DS()(tuple([np.array([]), np.array([])]))
                    d = {int(l): p for l, p in zip(labs, parts)}
                    r[1], r[2] = d.get(0, empty), d.get(1, empty)
                elif op == 'remove':
                    out = r[0].remove_samples([i - 1 for i in args['idx']])
                    r[1] = out
                elif op == 'concat':
                    res = r[1].concatenate(r[2])
                    # documented: if one operand is empty the other operand itself is returned; the registers hold values, so copy
                    r[0] = copy.deepcopy(res) if (res is r[1] or res is r[2]) else res
                elif op == 'shuffle':
                    r[0].shuffle()
                elif op == 'move_boundaries':
                    r[0].move_boundaries_to_front()
                elif op == 'remove_labels':
                    r[0].remove_labels(args['pct'])
                elif op == 'one_vs_others':
                    ev['parts'] = []
                    labs = r[0].get_labels()
                    parts = r[0].split_one_vs_others()
                    for lab, p in zip(labs, parts):
                        sn = snapshot_xs(p, self.dim)
                        ls = np.asarray(p.get_data()[1], dtype=float)
                        ev['parts'].append({'cls': int(lab), 'xs': sn['xs'], 'one': [bool(v == 1) for v in ls], 'neg': [snapq(v) for v in ls],
                                            'scaled': sn['scaled'], 'rng': sn['rng'], 'factor': sn['factor']})
                elif op == 'swap':
                    r[0], r[1] = r[1], r[0]
                elif op == 'copy':
                    r[1] = r[0].copy()      # the library's own copy(): from now on the two data sets must be independent of each other
        except impl.Timeout:
            raise
        except Exception as ex:
            ev['raised'] = True
            ev['_exc'] = '%s: %s' % (type(ex).__name__, ex)
        ev['regs'] = self.snap()
        return ev


def q(v):
    return [int(v[0]), int(v[1])]


def edge_to_op(lab, src):
    name, a = tlc.parse_action(lab)
    if name == 'OpScaleRange':
        return 'scale_range', {'lo': q(a[0]), 'hi': q(a[1]), 'override': bool(a[2])}
    if name == 'OpScaleFactor':
        return 'scale_factor', {'f': q(a[0]), 'override': bool(a[1])}
    if name == 'OpShift':
        return 'shift', {'t': q(a[0]), 'override': bool(a[1])}
    if name == 'OpRevert':
        return 'revert', {}
    if name == 'OpSplitPieces':
        return 'split_pieces', {'k': int(a[0])}
    if name == 'OpSplitLabel':
        return ('split_without_labels', {}) if a[0] == -1 else (None, None)
    if name == 'OpRemove':
        idx = sorted(int(i) for i in a[0])
        n = len(src['r1']['xs'])
        return 'remove', {'idx': idx, 'bad': any(i > n for i in idx)}
    if name == 'OpConcat':
        return 'concat', {}
    if name == 'OpSwap':
        return 'swap', {}
    raise ValueError(lab)


def spec_regs(st):
    def one(r):
        return (tuple((x[0], x[1]) for x in r['xs']), tuple(r['ls']), bool(r['scaled']),
                tuple((x[0], x[1]) for x in r['rng']) if r['rng'] else ())
    return tuple(one(st[k]) for k in ('r1', 'r2', 'r3'))


def impl_regs(snaps, model_rng=True):
    out = []
    for s in snaps:
        rng = ()
        if s['rng']:
            rng = (tuple(s['rng'][0][0]), tuple(s['rng'][0][1]))
        out.append((tuple(tuple(x[0]) for x in s['xs']), tuple(s['ls']), s['scaled'], rng))
    return tuple(out)


def edge_replay(rep, g, traces, maxedges):
    out = {}
    for s, t, lab in g.edges:
        out.setdefault(s, []).append((t, lab))
    n = mism = 0
    for init in g.init:
        st0 = g.states[init]
        xs = [x[0] / x[1] for x in st0['r1']['xs']]
        m0 = Machine(xs, list(st0['r1']['ls']), 1)
        first = {'op': 'init', 'args': {}, 'raised': False, 'regs': m0.snap()}
        objs = {init: (m0, [first])}
        order, seen, i = [init], {init}, 0
        while i < len(order):
            s = order[i]
            i += 1
            for t, lab in out.get(s, []):
                if t not in seen:
                    seen.add(t)
                    order.append(t)
                if s not in objs or n >= maxedges:
                    continue
                op, args = edge_to_op(lab, g.states[s])
                if op is None:
                    continue
                m, hist = objs[s]
                m2 = copy.deepcopy(m)
                ev = m2.apply(op, args)
                n += 1
                tgt = g.states[t]
                ok = (impl_regs(ev['regs']) == spec_regs(tgt)) and (bool(tgt['refused']) == ev['raised'])
                if not ok:
                    mism += 1
                    if mism <= 3:
                        rep.drift('edge %s: implementation state differs from the specification' % lab, {'impl': ev['regs'], 'exc': ev.get('_exc')})
                elif t not in objs:
                    objs[t] = (m2, hist + [ev])
                traces.append({'dim': 1, 'events': hist + [ev], 'origin': 'edge-replay'})
                rep.count(1, key=('edge', s, lab), nontrivial=op != 'swap')
    return n, mism


def random_trace(rng, nsteps):
    dim = rng.choice([1, 1, 2, 3])
    n = rng.choice([1, 2, 3, 4, 5, 6])
    vals = [0, 1, 2, 3, 4, 6]
    xs = [[rng.choice(vals) for _ in range(dim)] for _ in range(n)]
    if rng.random() < 0.3 and n > 2:      # ties in the extremes
        xs[1] = list(xs[0])
    labset = rng.choice([[0, 1, -1], [0, 1, -1], [0, 1], [0, 1], [0, 1, 2], [0, 2], [1, 2, -1]])     # also non-consecutive class labels
    ls = [rng.choice(labset) for _ in range(n)]
    m = Machine(xs, ls, dim)
    evs = [{'op': 'init', 'args': {}, 'raised': False, 'regs': m.snap()}]
    script = []
    for _ in range(nsteps):
        n1 = m.r[0].get_length()
        ops = ['split_pieces', 'split_without_labels', 'remove', 'concat', 'swap', 'shuffle', 'copy']
        if n1 > 0:
            ops += ['scale_range', 'scale_range', 'scale_factor', 'shift', 'move_boundaries']
            if m.r[0].is_scaled():
                ops += ['revert', 'revert']
            labs = set(int(v) for v in np.asarray(m.r[0].get_data()[1]).tolist())
            if labs <= {0, 1, -1} and labs & {0, 1}:
                ops.append('split_labels')
            ops += ['remove_labels', 'one_vs_others']
        op = rng.choice(ops)
        if op == 'scale_range':
            lo, hi = rng.choice([([0, 1], [1, 1]), ([0, 1], [2, 1]), ([1, 1], [3, 1]), ([-1, 1], [1, 1])])
            args = {'lo': lo, 'hi': hi, 'override': rng.random() < 0.3}
        elif op == 'scale_factor':
            args = {'f': rng.choice([[2, 1], [1, 2], [-1, 1], [3, 1]]), 'override': rng.random() < 0.3, 'ntype': rng.choice(['float', 'float', 'int', 'intarray', 'floatarray', 'mixedarray'])}
        elif op == 'shift':
            args = {'t': rng.choice([[1, 1], [-1, 1], [1, 2]]), 'override': rng.random() < 0.3, 'ntype': rng.choice(['float', 'float', 'int', 'intarray', 'floatarray', 'mixedarray'])}
        elif op == 'split_pieces':
            args = {'k': rng.randint(0, n1)}
        elif op == 'remove':
            if rng.random() < 0.25:
                idx = [n1 + rng.randint(1, 3)]
            else:
                idx = sorted(rng.sample(range(1, n1 + 1), rng.randint(0, min(2, n1)))) if n1 else []
            args = {'idx': idx, 'bad': any(i > n1 for i in idx)}
        elif op == 'remove_labels':
            nlab = int(np.sum(np.asarray(m.r[0].get_data()[1]) >= 0))
            pct = rng.choice([0.0, 0.25, 0.5, 0.75, 1.0, 1.5])
            args = {'pct': pct, 'k': int(round((pct if 0 <= pct < 1 else 1.0) * nlab))}
        else:
            args = {}
        ev = m.apply(op, args)
        evs.append(ev)
        script.append([op, args])
    return {'dim': dim, 'events': evs, 'origin': 'random', '_script': {'xs': xs, 'ls': ls, 'dim': dim, 'ops': script}}


def chain_trace(rng, pattern):
    """deterministic sub-histories the random generator hardly ever produces: a data set is scaled to a range, loses its extreme samples (or a
    derived piece is taken) and is scaled to the SAME range again; per-dimension factors of different sign before a revert"""
    dim = rng.choice([1, 2, 2, 3])
    n = rng.choice([4, 5, 6])
    vals = [0, 1, 2, 3, 4, 6]
    while True:
        xs = [[rng.choice(vals) for _ in range(dim)] for _ in range(n)]
        if all(len({x[d] for x in xs}) >= 3 for d in range(dim)):
            break
    ls = [rng.choice([0, 1]) for _ in range(n)]
    if len(set(ls)) == 1:
        ls[0] = 1 - ls[0]
    m = Machine(xs, ls, dim)
    evs = [{'op': 'init', 'args': {}, 'raised': False, 'regs': m.snap()}]
    script = []
    lo, hi = rng.choice([([0, 1], [1, 1]), ([0, 1], [2, 1]), ([1, 1], [3, 1]), ([-1, 1], [1, 1])])
    col0 = [x[0] for x in xs]
    if pattern == 'remove-extreme':
        ext = col0.index(min(col0)) + 1 if rng.random() < 0.5 else col0.index(max(col0)) + 1
        ops = [('scale_range', {'lo': lo, 'hi': hi, 'override': rng.random() < 0.5}), ('remove', {'idx': [ext], 'bad': False}),
               ('scale_range', {'lo': lo, 'hi': hi, 'override': False}), ('revert', {})]
    elif pattern == 'piece':
        ops = [('scale_range', {'lo': lo, 'hi': hi, 'override': False}), ('split_pieces', {'k': rng.randint(1, n - 2)}), ('swap', {}),
               ('scale_range', {'lo': lo, 'hi': hi, 'override': False})]
    elif pattern == 'label-piece':
        ops = [('scale_range', {'lo': lo, 'hi': hi, 'override': False}), ('split_labels', {}), ('swap', {}), ('scale_range', {'lo': lo, 'hi': hi, 'override': False})]
    else:      # 'mixed-factor'
        f = rng.choice([[2, 1], [1, 2], [3, 1], [-1, 1]])
        ops = [(rng.choice(['scale_range', 'shift']), None), ('scale_factor', {'f': f, 'override': False, 'ntype': 'mixedarray'}), ('revert', {})]
        ops[0] = ('scale_range', {'lo': lo, 'hi': hi, 'override': False}) if ops[0][0] == 'scale_range' else ('shift', {'t': [1, 1], 'override': False, 'ntype': 'float'})
        if rng.random() < 0.5:
            ops = ops[1:]
    for op, args in ops:
        if op == 'revert' and not m.r[0].is_scaled():
            continue
        if op == 'scale_range' and m.r[0].get_length() == 0:
            break
        evs.append(m.apply(op, args))
        script.append([op, args])
    return {'dim': dim, 'events': evs, 'origin': 'chain ' + pattern, '_script': {'xs': xs, 'ls': ls, 'dim': dim, 'ops': script}}


def translation_only(tr, step):
    """cause discriminator for a failed revert: the reverted samples are, up to one constant shift per dimension, a
    sub-multiset of an earlier unscaled snapshot (scale restored, offset not)"""
    from collections import Counter
    now = tr['events'][step - 1]['regs'][0]
    cur = [tuple(Fraction(x[0], x[1]) for x in s) for s in now['xs']]
    if not cur:
        return False
    for e in tr['events'][:step - 1]:
        for rg in e['regs']:
            if len(rg['xs']) < len(cur):
                continue
            old = [tuple(Fraction(x[0], x[1]) for x in s) for s in rg['xs']]
            bag = Counter(old)
            for o in set(old):
                c = tuple(a - b for a, b in zip(cur[0], o))
                if not any(c):
                    continue
                shifted = Counter(tuple(a - d for a, d in zip(x, c)) for x in cur)
                if all(bag[k] >= v for k, v in shifted.items()):
                    return True
    return False


def conclude(rep, traces):
    clean = [{'dim': t['dim'], 'events': [{k: v for k, v in e.items() if not k.startswith('_')} for e in t['events']]} for t in traces]
    verdicts, st, trn = tlc.validate_traces('DataSetTrace', clean, 'c18', chunk=1500, unevaluable='P_SpecEvaluable')
    rep.cov['states'] += st
    rep.cov['transitions'] += trn
    rep.cov['traces_validated_against_impl'] += len(traces)
    ndrift = {}
    for tr, v in zip(traces, verdicts):
        for step, clause in v:
            if clause.startswith('I_'):
                ndrift[clause] = ndrift.get(clause, 0) + 1
                continue
            ev = tr['events'][step - 1]
            hist = [e['op'] for e in tr['events'][1:step]]
            sig = {'op': ev['op'], 'exception': ev.get('_exc', '').split(':')[0], 'after_split': any(h.startswith('split') or h == 'remove' for h in hist[:-1]),
                   'empty_r1': len(tr['events'][step - 2]['regs'][0]['xs']) == 0}
            if clause == 'P_RevertRestoresBase':
                sig['translation_only'] = translation_only(tr, step)
            rep.violation(clause, sig, {'dim': tr['dim'], 'ops': [[e['op'], e['args']] for e in tr['events'][1:step]], 'init': tr['events'][0]['regs'],
                                        'failing_event': ev, 'script': tr.get('_script')},
                          what='%s after %s %s' % (ev['op'], hist[:-1][-4:], ev.get('_exc', '')))
    for cl, k in sorted(ndrift.items()):
        rep.drift('%s failed on %d recorded steps (a data set the operation does not work on was re-ordered through arrays it shares with a copy; '
                  'its labelled samples and attributes are unchanged)' % (cl, k))
    rep.cov['rule'] = ('edge replay: every edge of the TLC graph of DataSet.tla executed on real DataSet objects (path from the initial state); random: seeded '
                       'operation sequences on 1-3 dimensional data with ties, unlabelled samples, single-sample and empty pieces; distinct by '
                       '(source state, action) / script; non-trivial = not a register swap')
    rep.assumptions += ['TLC/SANY', 'float samples snapped to rationals with denominator <= 5000 (tolerance 1e-9), failure to snap is an error',
                        'scaling of empty data sets is outside the explored domain']
    return rep.finish()


def run(tier, seed):
    rep = Report(PROP, tier, seed, 'model_checking')
    rng = random.Random(seed)
    depth = 2 if tier == 'quick' else 3
    cfg = ('SPECIFICATION Spec\nCONSTANTS INITS <- MCInits\n MAXSTEPS = %d\nINVARIANT P_WellFormed\nINVARIANT P_WithinRange\nPROPERTY P_ScaleHitsRange\n'
           'PROPERTY P_RevertRestoresBase\nPROPERTY P_SplitPreserves\nPROPERTY P_RemovePreserves\nPROPERTY P_ConcatRefuses\nCHECK_DEADLOCK FALSE\n' % depth)
    r, g = tlc.run('MC_DataSet', cfg, 'c18', dump=True, timeout=2400)
    rep.tlc('DataSet depth %d' % depth, r)
    if r.violated:
        raise tlc.TLCError('DataSet.tla violates %s' % r.violated)
    for act in ('OpScaleRange', 'OpScaleFactor', 'OpShift', 'OpRevert', 'OpSplitPieces', 'OpRemove', 'OpConcat', 'OpSwap'):
        if r.action_counts.get(act, (0, 0))[1] == 0:
            raise tlc.TLCError('vacuous: %s never taken' % act)
    traces = []
    n, mism = edge_replay(rep, g, traces, maxedges=(1500 if tier == 'quick' else 40000))
    rep.cov['tlc_runs'][-1].update({'edges_replayed_on_impl': n, 'edge_mismatches': mism})
    for i in range(1500 if tier == "quick" else 8000):
        tr = random_trace(rng, rng.randint(3, 8))
        traces.append(tr)
        rep.count(1, key=('rand', json.dumps(tr['_script'])))
        if i < 2:
            rep.sample({'kind': 'random operation sequence', 'script': tr['_script']})
    for pattern in ('remove-extreme', 'piece', 'label-piece', 'mixed-factor'):
        for i in range(40 if tier == 'quick' else 300):
            tr = chain_trace(rng, pattern)
            traces.append(tr)
            rep.count(1, key=('chain', pattern, json.dumps(tr['_script'])))
    return conclude(rep, traces)


def replay(path, seed):
    rep = Report(PROP, 'quick', seed, 'model_checking')
    with open(path) as f:
        r = json.load(f)['replay']
    init = r['init'][0]
    dim = r['dim']
    xs = [[x[0] / x[1] for x in s] for s in init['xs']]
    m = Machine(xs, init['ls'], dim)
    evs = [{'op': 'init', 'args': {}, 'raised': False, 'regs': m.snap()}]
    for op, args in r['ops']:
        evs.append(m.apply(op, args))
    rep.count(1, key='a')
    rep.count(1, key='b')
    rep.sample({'replayed': path})
    return conclude(rep, [{'dim': dim, 'events': evs, 'origin': 'replay'}])
