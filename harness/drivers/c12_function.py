"""C12 - function evaluation is cache-transparent and matches its analytic integral.

1. spec/FunctionCache.tla is model-checked by TLC (all interleavings of single/batch/vectorised calls, reset,
   deactivation); every edge of its state graph is replayed on every built-in Function class and the recorded
   executions are validated by TLC against spec/FunctionCacheTrace.tla.
2. spec/PolyIntegrals.tla enumerates (kind, dimension, box, coefficients) and computes the exact rational integral;
   one implementation test per enumerated state (analytic integral vs spec value vs numerical quadrature).
3. transcendental classes: analytic integral vs tensor Gauss-Legendre reference (residual clause, harness).
"""
import itertools
import json
import math
import random
from fractions import Fraction

import numpy as np

from harness.engine import impl, tlc
from harness.engine.report import Report

PROP = 'C12'


def catalogue():
    import sparseSpACE.Function as F
    C = []

    def add(name, D, mk, integral=True, unit_only=False, breaks=None, kind=None, coef=None, deg=1, tol=1e-8, exact=None, weight=None, nbox=None):
        C.append(dict(name=name, D=D, mk=mk, integral=integral, unit_only=unit_only, breaks=breaks, kind=kind, coef=coef, deg=deg, tol=tol, exact=exact, weight=weight, nbox=nbox))
    for D in (1, 2, 3):
        add('ConstantValue(3)', D, lambda: F.ConstantValue(3), kind='const', coef=[3] * D)
    for D in (1, 2, 3):
        for cf in ([d + 1 for d in range(D)], [3 - 2 * (d + 1) for d in range(D)]):
            add('FunctionLinear(%s)' % cf, D, lambda cf=cf: F.FunctionLinear(cf), kind='linear', coef=cf)
            add('FunctionMultilinear(%s)' % cf, D, lambda cf=cf: F.FunctionMultilinear(cf), kind='multilin', coef=cf)
            for deg in (2, 3):
                add('FunctionPolynomial(%s,%d)' % (cf, deg), D, lambda cf=cf, deg=deg: F.FunctionPolynomial(cf, degree=deg), kind='poly', coef=cf, deg=deg)
    add('Polynomial1d([1,-2,3])', 1, lambda: F.Polynomial1d([1, -2, 3]))
    add('FunctionCompose(2*Linear - Poly)', 2, lambda: F.FunctionCompose([(F.FunctionLinear([1, 2]), 2.0), (F.FunctionPolynomial([1, 1]), -1.0)]))
    # compositions in which a discontinuous component comes FIRST (every component must see the caller's box)
    add('FunctionCompose(Discont + 2*Linear)', 2, lambda: F.FunctionCompose([(F.GenzDiscontinious([1.0, 2.0], [0.5, 0.5]), 1.0), (F.FunctionLinear([1, 2]), 2.0)]), breaks=[[0.5], [0.5]])
    add('FunctionCompose(Discont(.3,.7) - Poly + CornerPeak)', 2, lambda: F.FunctionCompose([(F.GenzDiscontinious([1.0, 2.0], [0.3, 0.7]), 1.0), (F.FunctionPolynomial([1, 1]), -1.0),
                                                                                                (F.GenzCornerPeak([1.0, 2.0]), 3.0)]), breaks=[[0.3], [0.7]])
    add('FunctionCompose(Discont3 + Linear3)', 3, lambda: F.FunctionCompose([(F.GenzDiscontinious([1.0, 2.0, 1.0], [0.5, 0.5, 0.5]), 1.0), (F.FunctionLinear([1, 2, 3]), 1.0)]),
        breaks=[[0.5], [0.5], [0.5]])
    add('GenzCornerPeak([1,2])', 2, lambda: F.GenzCornerPeak([1.0, 2.0]))
    add('GenzCornerPeak([.5,1,1.5])', 3, lambda: F.GenzCornerPeak([0.5, 1.0, 1.5]))
    add('GenzProductPeak', 2, lambda: F.GenzProductPeak([2.0, 3.0], [0.5, 0.4]))
    add('GenzOszillatory([1,2],.3)', 2, lambda: F.GenzOszillatory([1.0, 2.0], 0.3))
    add('GenzOszillatory([0,2],.1)', 2, lambda: F.GenzOszillatory([0.0, 2.0], 0.1))
    add('GenzOszillatory([1,0,3],.2)', 3, lambda: F.GenzOszillatory([1.0, 0.0, 3.0], 0.2))
    add('GenzOszillatory([0,2,0],.2)', 3, lambda: F.GenzOszillatory([0.0, 2.0, 0.0], 0.2))
    add('GenzDiscontinious(border .5)', 2, lambda: F.GenzDiscontinious([1.0, 2.0], [0.5, 0.5]), breaks=[[0.5], [0.5]])
    add('GenzDiscontinious(border .3,.7)', 2, lambda: F.GenzDiscontinious([1.0, 2.0], [0.3, 0.7]), breaks=[[0.3], [0.7]])
    add('GenzDiscontinious2(border .5)', 2, lambda: F.GenzDiscontinious2([1.0, 2.0], [0.5, 0.5]), breaks=[[0.5], [0.5]])
    add('GenzC0', 2, lambda: F.GenzC0([1.0, 2.0], [0.5, 0.4]), breaks=[[0.5], [0.4]])
    add('GenzGaussian', 2, lambda: F.GenzGaussian([0.5, 0.4], [2.0, 3.0]))
    add('GenzGaussian3', 3, lambda: F.GenzGaussian([0.5, 0.4, 0.3], [2.0, 3.0, 1.0]))
    add('FunctionExpVar', 2, lambda: F.FunctionExpVar(), tol=1e-5)
    add('FunctionExpVar3', 3, lambda: F.FunctionExpVar(), tol=1e-5)
    add('FunctionG(2)', 2, lambda: F.FunctionG(2), unit_only=True, breaks=[[0.5], [0.5]])
    # the analytic value is only offered on the unit cube: volume of the simplex sum(x) < 1
    add('FunctionDiagonalDiscont', 2, lambda: F.FunctionDiagonalDiscont(), unit_only=True, exact=lambda lo, hi: 0.5)
    add('FunctionDiagonalDiscont3', 3, lambda: F.FunctionDiagonalDiscont(), unit_only=True, exact=lambda lo, hi: 1.0 / 6.0)
    add('FunctionGShifted(2)', 2, lambda: F.FunctionGShifted(2), unit_only=True, breaks=[[0.3, 0.8], [0.3, 0.8]])
    # classes whose 'analytic' value is a numerical integral of the point evaluation (scipy dblquad / tplquad)
    add('FunctionUQ2', 2, lambda: F.FunctionUQ2(), tol=1e-7, nbox=3)
    add('FunctionUQ', 3, lambda: F.FunctionUQ(), tol=1e-7, nbox=1)
    add('FunctionCustom(base class integral)', 2, lambda: F.FunctionCustom(lambda c: c[0] * 2 + c[1] ** 2), tol=1e-7, nbox=2)
    # expectation-type integrals: the point evaluation weighted with the (truncated) normal density given at construction
    from scipy.stats import norm as _norm
    _m, _s, _a, _b = [0.3, 0.6], [0.5, 0.4], [0.0, 0.0], [1.0, 1.0]
    add('FunctionUQNormal2(Linear)', 2, lambda: F.FunctionUQNormal2(F.FunctionLinear([1, 2]), _m, _s, _a, _b), tol=1e-7, nbox=3,
        weight=lambda p: float(np.prod([_norm.pdf(p[d], loc=_m[d], scale=_s[d]) / (_norm.cdf(_b[d], loc=_m[d], scale=_s[d]) - _norm.cdf(_a[d], loc=_m[d], scale=_s[d])) for d in range(2)])))
    _a2, _b2 = [-1.0, -2.0], [2.0, 1.5]
    add('FunctionUQNormal(CornerPeak)', 2, lambda: F.FunctionUQNormal(F.GenzCornerPeak([1.0, 2.0]), [0.2, 0.1], [0.1, 0.2], _a2, _b2), tol=1e-7, nbox=3,
        weight=lambda p: float(np.prod([np.exp(-p[d] ** 2 / 2.0) / ((_norm.cdf(_b2[d]) - _norm.cdf(_a2[d])) * np.sqrt(2 * np.pi)) for d in range(2)])))
    add('FunctionShift(CornerPeak,+.1)', 2, lambda: F.FunctionShift(F.GenzCornerPeak([1.0, 2.0]), lambda c: [x + 0.1 for x in c]))
    add('LambdaFunction(x^2)', 1, lambda: F.LambdaFunction(lambda c: c[0] ** 2, lambda c: c[0] ** 3 / 3.0))
    add('FunctionConcatenate', 2, lambda: F.FunctionConcatenate([F.GenzCornerPeak([1.0, 2.0]), F.FunctionLinear([1, 2])]), integral=False)
    add('FunctionPower', 2, lambda: F.FunctionPower(F.GenzCornerPeak([1.0, 2.0]), 2), integral=False)
    add('FunctionPower(Concatenate)', 2, lambda: F.FunctionPower(F.FunctionConcatenate([F.GenzCornerPeak([1.0, 2.0]), F.FunctionLinear([1, 2])]), 2), integral=False)
    add('FunctionPower(CustomFunction array)', 2, lambda: F.FunctionPower(F.CustomFunction(lambda c: np.array([c[0] + 0.5, c[1] ** 2 + 0.25]), output_length=2), 3), integral=False)
    add('FunctionCustom', 2, lambda: F.FunctionCustom(lambda c: c[0] * 2 + c[1]), integral=False)
    add('CustomFunction', 2, lambda: F.CustomFunction(lambda c: [c[0], c[1] ** 2], output_length=2), integral=False)
    add('FunctionCantileverBeamD', 3, lambda: F.FunctionCantileverBeamD(), integral=False)
    add('FunctionGeneralizedNormal', 2, lambda: F.FunctionGeneralizedNormal([0.5, 0.4], [2.0, 3.0], 1), integral=False)  # analytic integral marked incorrect in the source
    return C


POINTS = {1: [(0.25,), (0.5,), (0.8,)], 2: [(0.25, 0.5), (0.5, 0.5), (0.8, 0.3)], 3: [(0.25, 0.5, 0.75), (0.5, 0.5, 0.5), (0.8, 0.3, 0.6)]}


def direct_values(entry):
    f = entry['mk']()
    out = []
    for p in POINTS[entry['D']]:
        v = f.eval(p)
        out.append(np.atleast_1d(np.asarray(v, dtype=float)))
    return out, f.output_length()


def run_path(entry, path, direct, outlen):
    """path: list of (op, point ids) -> events"""
    f = entry['mk']()
    pts = POINTS[entry['D']]
    evs = []
    # single points are handed over in ONE buffer the caller keeps and overwrites in place between the calls (array or list, alternating per path)
    buf = np.zeros(entry['D']) if len(path) % 2 == 0 else [0.0] * entry['D']
    for op, ids in path:
        e = {'op': op, 'pts': [int(i) for i in ids], 'raised': False, 'values_ok': True, 'shape_ok': True, 'size': 0}
        try:
            with impl.quiet(), impl.watchdog(30):
                if op == 'single':
                    buf[:] = list(pts[ids[0] - 1])
                    r = f(buf)
                    r = np.asarray(r, dtype=float)
                    e['shape_ok'] = r.shape == (outlen,)
                    e['values_ok'] = e['shape_ok'] and bool(np.allclose(r, direct[ids[0] - 1], rtol=1e-13, atol=0))
                elif op in ('batch', 'evalv'):
                    coords = [pts[i - 1] for i in ids]
                    if op == 'batch':
                        r = f(coords)
                    else:
                        r = f.eval_vectorized(np.asarray(coords, dtype=float).reshape(len(coords), entry['D']))
                        r = np.asarray(r, dtype=float)
                        if r.size == len(coords) * outlen:
                            r = r.reshape(len(coords), outlen)
                    r = np.asarray(r, dtype=float)
                    e['shape_ok'] = r.shape == (len(ids), outlen)
                    e['values_ok'] = e['shape_ok'] and all(np.allclose(r[k], direct[i - 1], rtol=1e-13, atol=0) for k, i in enumerate(ids))
                elif op == 'reset':
                    f.reset_dictionary()
                elif op == 'deact':
                    f.deactivate_caching()
                e['size'] = int(f.get_f_dict_size())
        except impl.Timeout:
            raise
        except Exception as ex:
            e['raised'] = True
            e['_exc'] = '%s: %s' % (type(ex).__name__, ex)
        evs.append(e)
    return evs


OPMAP = {'CallSingle': 'single', 'CallBatch': 'batch', 'EvalVectorized': 'evalv', 'Reset': 'reset', 'Deactivate': 'deact'}


def long_histories(rep, tier):
    """One function object evaluated at a very large number of distinct points (batches, single points, repeated points): the evaluation
    counter must keep equalling the number of distinct points since the last reset and repeated evaluations must keep returning the first
    values - whatever size the cache has reached (residual: the point sets are too large for the trace specification's explicit `seen` set)."""
    import sparseSpACE.Function as F
    cases = [('GenzCornerPeak', 2, lambda: F.GenzCornerPeak(coeffs=np.array([1.0, 2.0]))),
             ('FunctionLinear', 3, lambda: F.FunctionLinear([1.0, -2.0, 0.5])),
             ('GenzProductPeak', 2, lambda: F.GenzProductPeak(coefficients=np.array([2.0, 3.0]), midpoint=np.array([0.5, 0.4])))]
    nbig = 130000 if tier == 'quick' else 450000
    for name, D, mk in (cases[:2] if tier == 'quick' else cases):
        try:
            with impl.quiet(), impl.watchdog(600):
                f = mk()
                rs = np.random.RandomState(7)
                seen = 0
                first = None
                ok_count, ok_vals, where = True, True, None
                for k in range(0, nbig, 32500):
                    pts = rs.rand(32500, D)
                    vals = np.asarray(f(pts), dtype=float)
                    seen += len(pts)
                    if first is None:
                        first = (pts[:50].copy(), vals[:50].copy())
                    for p in pts[:3]:      # repeated single evaluations of points already seen
                        f(tuple(p))
                    if int(f.get_f_dict_size()) != seen and ok_count:
                        ok_count, where = False, (seen, int(f.get_f_dict_size()))
                again = np.asarray(f(first[0]), dtype=float)
                ok_vals = again.shape == first[1].shape and bool(np.allclose(again, first[1], rtol=1e-13, atol=0))
                if int(f.get_f_dict_size()) != seen and ok_count:
                    ok_count, where = False, (seen, int(f.get_f_dict_size()))
                f.reset_dictionary()
                f(first[0][:7])
                after_reset = int(f.get_f_dict_size())
        except impl.Timeout:
            rep.exclude('long history %s: timeout' % name)
            continue
        except Exception as ex:
            rep.violation('P_NoException', {'cls': name, 'long_history': True, 'exception': type(ex).__name__}, {'cls': name, 'exception': repr(ex)}, what='long history on %s raised %r' % (name, ex))
            continue
        rep.count(1, key=('long', name))
        rep.residual('long_history_counter', ok_count and after_reset == 7)
        rep.residual('long_history_values', ok_vals)
        if not ok_count or after_reset != 7:
            rep.violation('P_Counter', {'cls': name, 'long_history': True}, {'cls': name, 'distinct_points_evaluated_vs_counter': where, 'counter_after_reset_and_7_points': after_reset},
                          what='%s: after %s distinct points the evaluation counter reads %s (after a reset and 7 points: %d)' % (name, where and where[0], where and where[1], after_reset))
        if not ok_vals:
            rep.violation('P_Transparent', {'cls': name, 'long_history': True}, {'cls': name}, what='%s: values of the first points changed after %d further points' % (name, seen))


def wrapper_interplay(rep):
    """functions that wrap another function object: evaluating the wrapper must not change what the wrapped object returns
    (shared cache entries), and the wrapper's own values must stay the same on repetition, with caching on, off and after a reset"""
    import sparseSpACE.Function as F
    inners = [('GenzCornerPeak', 2, lambda: F.GenzCornerPeak([1.0, 2.0])), ('FunctionLinear', 2, lambda: F.FunctionLinear([1, 2])),
              ('FunctionConcatenate', 2, lambda: F.FunctionConcatenate([F.GenzCornerPeak([1.0, 2.0]), F.FunctionLinear([1, 2])])),
              ('CustomFunction array', 2, lambda: F.CustomFunction(lambda c: np.array([c[0] + 0.5, c[1] ** 2 + 0.25]), output_length=2)),
              ('GenzGaussian3', 3, lambda: F.GenzGaussian([0.5, 0.4, 0.3], [2.0, 3.0, 1.0]))]
    wrappers = [('FunctionPower(.,2)', lambda f: F.FunctionPower(f, 2)), ('FunctionShift(.)', lambda f: F.FunctionShift(f, lambda c: [x * 0.5 + 0.1 for x in c])),
                ('FunctionConcatenate([., .])', lambda f: F.FunctionConcatenate([f, f]))]
    for iname, D, mk in inners:
        pts = POINTS[D]
        direct_inner = [np.atleast_1d(np.asarray(mk().eval(p), dtype=float)) for p in pts]
        for wname, wrap in wrappers:
            direct_wrap = [np.atleast_1d(np.asarray(wrap(mk()).eval(p), dtype=float)) for p in pts]
            for first in ('batch', 'single', 'none'):
                for wcache in (True, False):
                    case = {'inner': iname, 'wrapper': wname, 'inner_first_call': first, 'wrapper_caching': wcache}
                    sig = {'cls': wname.split('(')[0], 'kind': 'wrapper-interplay'}
                    rep.count(1, key=json.dumps(case))
                    try:
                        with impl.quiet(), impl.watchdog(30):
                            f = mk()
                            w = wrap(f)
                            if not wcache:
                                w.deactivate_caching()
                            if first == 'batch':
                                f(list(pts))
                            elif first == 'single':
                                for p in pts:
                                    f(p)
                            bad = None
                            for rnd in range(3):
                                for k, p in enumerate(pts):
                                    r = np.atleast_1d(np.asarray(w(p), dtype=float))
                                    if r.shape != direct_wrap[k].shape or not np.allclose(r, direct_wrap[k], rtol=1e-13, atol=0):
                                        bad = bad or 'wrapper value at %s in round %d: %s, direct evaluation %s' % (p, rnd + 1, r.tolist(), direct_wrap[k].tolist())
                                    r = np.atleast_1d(np.asarray(f(p), dtype=float))
                                    if r.shape != direct_inner[k].shape or not np.allclose(r, direct_inner[k], rtol=1e-13, atol=0):
                                        bad = bad or 'wrapped function at %s after evaluating the wrapper (round %d): %s, direct evaluation %s' % (p, rnd + 1, r.tolist(), direct_inner[k].tolist())
                                if rnd == 1:
                                    w.reset_dictionary()
                    except impl.Timeout:
                        raise
                    except Exception as ex:
                        rep.violation('P_NoException', dict(sig, exception=type(ex).__name__), dict(case, exception=repr(ex)), what='%s raised %r' % (case, ex))
                        continue
                    rep.residual('wrapper_interplay_transparent', bad is None)
                    if bad:
                        rep.violation('P_Transparent', sig, dict(case, observed=bad), what='%s: %s' % (case, bad))


def graph_paths(g):
    """for every edge: shortest path to its source followed by the edge (list of (op, ids))"""
    out = {}
    for s, t, lab in g.edges:
        name, args = tlc.parse_action(lab)
        ids = list(args[0]) if args and isinstance(args[0], tuple) else ([args[0]] if args else [])
        out.setdefault(s, []).append((t, (OPMAP[name], ids)))
    init = g.init[0]
    pathto = {init: []}
    order = [init]
    i = 0
    while i < len(order):
        s = order[i]
        i += 1
        for t, act in out.get(s, []):
            if t not in pathto:
                pathto[t] = pathto[s] + [act]
                order.append(t)
    paths = []
    for s in order:
        for t, act in out.get(s, []):
            paths.append(pathto[s] + [act])
    return paths


# ------------------------------------------------------------------------------- analytic integrals
def gauss_ref(f, lo, hi, breaks, n):
    """tensor Gauss-Legendre reference, piecewise at the given break points per dimension"""
    D = len(lo)
    xs, ws = np.polynomial.legendre.leggauss(n)
    nodes, weights = [], []
    for d in range(D):
        cuts = [lo[d]] + sorted(b for b in (breaks[d] if breaks else []) if lo[d] < b < hi[d]) + [hi[d]]
        nd, wd = [], []
        for a, b in zip(cuts[:-1], cuts[1:]):
            nd += list(0.5 * (b - a) * xs + 0.5 * (a + b))
            wd += list(0.5 * (b - a) * ws)
        nodes.append(nd)
        weights.append(wd)
    total = None
    for idx in itertools.product(*[range(len(x)) for x in nodes]):
        p = tuple(nodes[d][idx[d]] for d in range(D))
        w = 1.0
        for d in range(D):
            w *= weights[d][idx[d]]
        v = np.atleast_1d(np.asarray(f.eval(p), dtype=float)) * w
        total = v if total is None else total + v
    return total


def boxes(D, rng, n):
    cuts = [0.0, 0.25, 0.5, 0.75, 1.0]
    iv = [(a, b) for a in cuts for b in cuts if a < b]
    allb = list(itertools.product(iv, repeat=D))
    rng.shuffle(allb)
    unit = tuple((0.0, 1.0) for _ in range(D))
    sel = [unit] + [b for b in allb if b != unit][:n - 1]
    return [([x[0] for x in b], [x[1] for x in b]) for b in sel]


def check_integrals(rep, tier, rng):
    cat = [e for e in catalogue() if e['integral']]
    nbox = 6 if tier == 'quick' else 40
    for e in cat:
        bl = boxes(e['D'], rng, nbox if e['D'] < 3 else max(3, nbox // 3))
        if e['unit_only']:
            bl = bl[:1]
        if e.get('nbox'):
            bl = bl[:e['nbox'] * (1 if tier == 'quick' else 3)]
        for lo, hi in bl:
            f = e['mk']()
            case = {'cls': e['name'], 'lo': lo, 'hi': hi}
            try:
                with impl.quiet(), impl.watchdog(60):
                    an = f.getAnalyticSolutionIntegral(np.array(lo), np.array(hi))
            except impl.Timeout:
                rep.exclude('%s analytic integral timed out' % e['name'])
                continue
            except Exception as ex:
                rep.violation('P_AnalyticIntegral', {'cls': e['name'].split('(')[0], 'kind': 'raises', 'exception': type(ex).__name__}, dict(case, exception=repr(ex)),
                              what='%s.getAnalyticSolutionIntegral(%s,%s) raised %r' % (e['name'], lo, hi, ex))
                continue
            n1, n2 = (12, 18) if e['D'] == 3 else (24, 36)
            if e.get('exact'):
                r1 = r2 = np.atleast_1d(float(e['exact'](lo, hi)))
            else:
                fr = f
                if e.get('weight'):
                    class _W:      # point evaluation times the density the class documents
                        def eval(self, p, _f=f, _w=e['weight']):
                            return np.atleast_1d(np.asarray(_f.eval(p), dtype=float)) * _w(p)
                    fr = _W()
                r1 = gauss_ref(fr, lo, hi, e['breaks'], n1)
                r2 = gauss_ref(fr, lo, hi, e['breaks'], n2)
            rep.count(1, key=('int', e['name'], tuple(lo), tuple(hi)))
            if not np.allclose(r1, r2, rtol=min(e['tol'], 1e-8) * 0.1, atol=1e-13):
                rep.residual('reference_not_converged_skipped', True)
                continue
            ok = an is not None and np.allclose(np.atleast_1d(np.asarray(an, dtype=float)), r2, rtol=e['tol'], atol=1e-12)
            rep.residual('analytic_vs_gauss_reference', ok)
            if not ok:
                rep.violation('P_AnalyticIntegral', {'cls': e['name'].split('(')[0], 'kind': 'value', 'none': an is None},
                              dict(case, analytic=None if an is None else [float(x) for x in np.atleast_1d(an)], reference=[float(x) for x in r2]),
                              what='%s on box %s-%s: analytic %s vs numerical %s' % (e['name'], lo, hi, an, r2))


def check_poly_table(rep, tier):
    """spec-computed exact integrals (PolyIntegrals.tla) vs getAnalyticSolutionIntegral"""
    import sparseSpACE.Function as F
    cfg = 'SPECIFICATION Spec\nCONSTANTS MAXC = %d\n KINDS = {"const", "linear", "multilin", "poly"}\nINVARIANT Additive\nCHECK_DEADLOCK FALSE\n' % (2 if tier == 'quick' else 3)
    r, g = tlc.run('PolyIntegrals', cfg, 'c12poly', dump=True, timeout=1200)
    rep.tlc('PolyIntegrals', r)
    if r.violated:
        raise tlc.TLCError('PolyIntegrals violates %s' % r.violated)
    n = 0
    for sid, st in g.states.items():
        D = st['dim']
        lo, hi, cf = [float(x) for x in st['lo']], [float(x) for x in st['hi']], [int(x) for x in st['coef']]
        k = st['kind']
        f = {'const': lambda: F.ConstantValue(cf[0]), 'linear': lambda: F.FunctionLinear(cf), 'multilin': lambda: F.FunctionMultilinear(cf),
             'poly': lambda: F.FunctionPolynomial(cf, degree=st['deg'])}[k]()
        exp = Fraction(st['expected'][0], st['expected'][1])
        try:
            an = f.getAnalyticSolutionIntegral(np.array(lo), np.array(hi))
        except Exception as ex:
            an = None
        ok = an is not None and abs(float(np.atleast_1d(an)[0]) - float(exp)) <= 1e-11 * max(1.0, abs(float(exp)))
        n += 1
        rep.count(1, key=('poly', sid))
        if not ok:
            rep.violation('P_AnalyticIntegral', {'cls': {'const': 'ConstantValue', 'linear': 'FunctionLinear', 'multilin': 'FunctionMultilinear', 'poly': 'FunctionPolynomial'}[k],
                                                 'kind': 'value', 'none': an is None, 'dim_gt_1': D > 1},
                          {'kind': k, 'dim': D, 'lo': lo, 'hi': hi, 'coef': cf, 'deg': st['deg'], 'expected': str(exp), 'analytic': None if an is None else float(np.atleast_1d(an)[0])},
                          what='%s D=%d box %s-%s coef %s: analytic %s, exact %s' % (k, D, lo, hi, cf, an, exp))
    rep.cov['poly_states_tested_on_impl'] = n


def run(tier, seed):
    rep = Report(PROP, tier, seed, 'model_checking')
    rng = random.Random(seed)
    depth = 2 if tier == 'quick' else 3
    cfg = ('SPECIFICATION Spec\nCONSTANTS Points <- MCPoints\n MAXSTEPS = %d\nINVARIANT P_Counter\nINVARIANT P_CacheSubsetSeen\nINVARIANT P_Shape\nCHECK_DEADLOCK FALSE\n' % depth)
    r, g = tlc.run('MC_FunctionCache', cfg, 'c12', dump=True, timeout=1200)
    rep.tlc('FunctionCache depth %d' % depth, r)
    if r.violated:
        raise tlc.TLCError('FunctionCache.tla violates %s' % r.violated)
    for act in ('CallSingle', 'CallBatch', 'EvalVectorized', 'Reset', 'Deactivate'):
        if r.action_counts.get(act, (0, 0))[1] == 0:
            raise tlc.TLCError('vacuous: %s never taken' % act)
    paths = graph_paths(g)
    rep.cov['graph_edges'] = len(paths)
    traces = []
    cat = catalogue()
    seen_cls = set()
    for e in cat:
        cls = e['name'].split('(')[0]
        if tier == 'quick' and cls in seen_cls:
            continue
        seen_cls.add(cls)
        try:
            direct, outlen = direct_values(e)
        except Exception as ex:
            rep.exclude('%s: direct evaluation raised %r' % (e['name'], ex))
            continue
        use = paths if tier == 'thorough' or len(paths) <= 400 else paths
        for p in use:
            evs = run_path(e, p, direct, outlen)
            traces.append({'cls': e['name'], 'events': evs, '_path': p})
            rep.count(1, key=(e['name'], json.dumps(p)), nontrivial=len(p) > 1)
        rep.sample({'class': e['name'], 'path': use[len(use) // 2]}, limit=3)
    clean = [{'cls': t['cls'], 'events': [{k: v for k, v in ev.items() if not k.startswith('_')} for ev in t['events']]} for t in traces]
    verdicts, st, trn = tlc.validate_traces('FunctionCacheTrace', clean, 'c12', chunk=3000, unevaluable='P_SpecEvaluable')
    rep.cov['states'] += st
    rep.cov['transitions'] += trn
    rep.cov['traces_validated_against_impl'] += len(traces)
    for tr, v in zip(traces, verdicts):
        for step, clause in v:
            ev = tr['events'][step - 1]
            sig = {'cls': tr['cls'].split('(')[0], 'op': ev['op'], 'npts': len(ev['pts']),
                   'caching_off': any(x['op'] == 'deact' for x in tr['events'][:step]), 'exception': ev.get('_exc', '').split(':')[0]}
            rep.violation(clause, sig, {'cls': tr['cls'], 'path': tr['_path'], 'failing_step': step, 'event': ev},
                          what='%s path %s step %d %s' % (tr['cls'], tr['_path'], step, ev.get('_exc', '')))
    check_poly_table(rep, tier)
    check_integrals(rep, tier, rng)
    wrapper_interplay(rep)
    long_histories(rep, tier)
    rep.cov['rule'] = ('cache clause: for every built-in Function class (quick: one parameter set per class) every edge of the TLC graph of FunctionCache.tla '
                       '(shortest path to the source state + the edge) executed on a fresh instance; integral clause: every state of PolyIntegrals.tla '
                       'and a seeded sample of lattice boxes for the transcendental classes; distinct by (class, path) / (class, box)')
    rep.cov['exhaustive'] = True
    rep.assumptions += ['TLC/SANY', 'direct scalar eval() of a fresh instance is the value oracle', 'Gauss-Legendre reference accepted only when two orders agree']
    return rep.finish()


def replay(path, seed):
    rep = Report(PROP, 'quick', seed, 'model_checking')
    with open(path) as f:
        r = json.load(f)['replay']
    if 'path' in r:
        e = [x for x in catalogue() if x['name'] == r['cls']][0]
        direct, outlen = direct_values(e)
        evs = run_path(e, [tuple(p) for p in r['path']], direct, outlen)
        clean = [{'cls': e['name'], 'events': [{k: v for k, v in ev.items() if not k.startswith('_')} for ev in evs]}]
        verdicts, st, trn = tlc.validate_traces('FunctionCacheTrace', clean, 'c12', unevaluable='P_SpecEvaluable')
        for step, clause in verdicts[0]:
            rep.violation(clause, {'cls': e['name'].split('(')[0], 'replay': True}, {'cls': e['name'], 'path': r['path']}, what='replayed %s' % r['path'])
    else:
        print('integral case: re-run bin/check C12')
    rep.count(1, key='a')
    rep.count(1, key='b')
    rep.sample({'replayed': path})
    return rep.finish()
