"""Adaptive driver loop: recorded runs of the real strategies for C05 / C13 / C14 (validated against DriverTrace.tla)."""
import copy
import os
import itertools

import numpy as np

from harness.engine import impl


def _lib():
    import sparseSpACE.Function as F
    from sparseSpACE.Grid import GlobalTrapezoidalGrid, TrapezoidalGrid
    from sparseSpACE.GridOperation import Integration
    from sparseSpACE.ErrorCalculator import ErrorCalculatorSingleDimVolumeGuided, ErrorCalculatorExtendSplit, ErrorCalculatorSurplusCell
    from sparseSpACE.spatiallyAdaptiveSingleDimension2 import SpatiallyAdaptiveSingleDimensions2
    from sparseSpACE.spatiallyAdaptiveExtendSplit import SpatiallyAdaptiveExtendScheme
    from sparseSpACE.spatiallyAdaptiveCell import SpatiallyAdaptiveCellScheme
    from sparseSpACE.StandardCombi import StandardCombi
    from sparseSpACE.DimAdaptiveCombi import DimAdaptiveCombi
    return locals()


def make_function(kind, D):
    L = _lib()
    F = L['F']
    if kind == 'cornerpeak':
        return F.GenzCornerPeak(coeffs=np.arange(1, D + 1, dtype=float))
    if kind == 'gaussian':
        return F.GenzGaussian(midpoint=np.full(D, 0.4), coeffs=np.full(D, 3.0)) if hasattr(F, 'GenzGaussian') else F.GenzCornerPeak(coeffs=np.ones(D))
    if kind == 'product':
        return F.GenzProductPeak(coefficients=np.full(D, 2.0), midpoint=np.full(D, 0.5))
    if kind in ('tiny', 'huge'):
        base = F.GenzCornerPeak(coeffs=np.arange(1, D + 1, dtype=float))
        scale = 1e-9 if kind == 'tiny' else 1e7

        class Scaled(F.Function):
            # user-defined integrand: a built-in test function scaled to a very small / very large magnitude
            def eval(self, coordinates):
                return scale * base.eval(coordinates)

            def eval_vectorized(self, coordinates):
                return scale * base.eval_vectorized(coordinates)

            def getAnalyticSolutionIntegral(self, start, end):
                return scale * base.getAnalyticSolutionIntegral(start, end)
        return Scaled()
    if kind == 'multilin':
        # component 0 drives the refinement, the others are the monomials prod_{d in S} x_d (all multilinear functions by linearity)
        base = F.GenzCornerPeak(coeffs=np.arange(1, D + 1, dtype=float))
        subsets = [S for r in range(D + 1) for S in itertools.combinations(range(D), r)]

        class MultiLin(F.Function):
            def output_length(self):
                return 1 + len(subsets)

            def eval(self, coordinates):
                x = np.asarray(coordinates, dtype=float)
                return np.concatenate([np.atleast_1d(base.eval(coordinates)), [float(np.prod([x[d] for d in S])) for S in subsets]])

            def getAnalyticSolutionIntegral(self, start, end):
                mono = [float(np.prod([(end[d] ** 2 - start[d] ** 2) / 2 if d in S else (end[d] - start[d]) for d in range(D)])) for S in subsets]
                return np.concatenate([np.atleast_1d(base.getAnalyticSolutionIntegral(start, end)), mono])
        return MultiLin()
    if kind == 'vector':
        fs = [F.GenzCornerPeak(coeffs=np.arange(1, D + 1, dtype=float)), F.GenzProductPeak(coefficients=np.full(D, 2.0), midpoint=np.full(D, 0.5))]
        return F.FunctionConcatenate(fs)
    raise ValueError(kind)


def reference(kind, f, a, b):
    """analytic integral of make_function(kind, .) over [a, b] as a 1-d array (the concatenated function offers none itself)"""
    if kind == 'vector':
        return np.concatenate([np.atleast_1d(np.asarray(g.getAnalyticSolutionIntegral(a, b), dtype=float)) for g in f.funcs])
    return np.atleast_1d(np.asarray(f.getAnalyticSolutionIntegral(a, b), dtype=float))


class Counting:
    """independent count of the distinct points at which the integrand is evaluated (wraps eval / eval_vectorized)"""

    def __init__(self, f):
        self.seen = set()
        self.f = f
        cls = type(f)
        oe, ov = f.eval, f.eval_vectorized
        seen = self.seen

        def eval_(coords, _oe=oe):
            seen.add(tuple(float(c) for c in coords))
            return _oe(coords)

        def evalv(coords, _ov=ov):
            arr = np.asarray(coords, dtype=float)
            for row in arr.reshape(-1, arr.shape[-1]):
                seen.add(tuple(float(c) for c in row))
            return _ov(coords)
        f.eval = eval_
        f.eval_vectorized = evalv


def local_grid(c, a, b):
    """fresh local (per-area) grid object of the family chosen by c['grid']"""
    import sparseSpACE.Grid as G
    kind = c.get('grid', 'trapezoid')
    bnd = c.get('boundary', True)
    if kind == 'trapezoid':
        return G.TrapezoidalGrid(a=a, b=b, boundary=bnd)
    if kind == 'lagrange2':
        return G.LagrangeGrid(a=a, b=b, boundary=bnd, p=2)
    if kind == 'clenshaw':
        return G.ClenshawCurtisGrid(a=a, b=b, boundary=bnd)
    if kind == 'gauss':
        return G.GaussLegendreGrid(a=a, b=b)
    if kind == 'simpson':
        return G.SimpsonGrid(a=a, b=b, boundary=bnd)
    raise ValueError(kind)


def build(c):
    """c: dict(strategy, D, lmin, lmax, func, norm, boundary, ...) -> dict with combi, op, f, ec"""
    L = _lib()
    D = c['D']
    a = np.array(c.get('a', [0.0] * D), dtype=float)
    b = np.array(c.get('b', [1.0] * D), dtype=float)
    f = make_function(c['func'], D)
    if c.get('nocache'):
        f.deactivate_caching()      # the integrand's value cache switched off before the run
    ref = reference(c['func'], f, a, b)
    if c.get('zero_ref'):
        ref = np.zeros_like(ref)
    st = c['strategy']
    norm = c.get('norm', np.inf)
    if st == 'dimwise':
        grid = L['GlobalTrapezoidalGrid'](a=a, b=b, boundary=c.get('boundary', True), modified_basis=False)
        op = L['Integration'](f=f, grid=grid, dim=D, reference_solution=ref)
        combi = L['SpatiallyAdaptiveSingleDimensions2'](a, b, operation=op, norm=norm, version=c.get('version', 6), rebalancing=c.get('rebalancing', True))
        ec = L['ErrorCalculatorSingleDimVolumeGuided']()
    elif st == 'extendsplit':
        grid = local_grid(c, a, b)
        op = L['Integration'](f=f, grid=grid, dim=D, reference_solution=ref)
        combi = L['SpatiallyAdaptiveExtendScheme'](a, b, operation=op, norm=norm, version=c.get('version', 0),
                                                   number_of_refinements_before_extend=c.get('nrbe', 1),
                                                   automatic_extend_split=c.get('auto', False), split_single_dim=c.get('single', False))
        ec = L['ErrorCalculatorExtendSplit']()
    elif st == 'cell':
        grid = L['TrapezoidalGrid'](a=a, b=b, boundary=True)
        op = L['Integration'](f=f, grid=grid, dim=D, reference_solution=ref)
        combi = L['SpatiallyAdaptiveCellScheme'](a, b, operation=op, norm=norm)
        ec = L['ErrorCalculatorSurplusCell']()
    else:
        raise ValueError(st)
    if c.get('ec'):
        # another of the error calculators the library ships for this strategy
        import sparseSpACE.ErrorCalculator as _E
        ec = getattr(_E, c['ec'])()
    return {'combi': combi, 'op': op, 'f': f, 'ec': ec, 'a': a, 'b': b, 'ref': ref, 'grid': grid, 'norm': norm, 'c': c}


def norm_error(result, ref, norm):
    from numpy import linalg as LA
    result = np.atleast_1d(np.asarray(result, dtype=float))
    if LA.norm(ref) == 0.0:
        return LA.norm(abs(result), norm) / (len(result) ** (1 / norm))
    return LA.norm(abs((ref - result) / ref), norm) / (len(result) ** (1 / norm))


def independent_combination(S):
    """sum over component grids (and areas) of coefficient * integral computed with fresh grid objects"""
    L = _lib()
    combi, c = S['combi'], S['c']
    f2 = make_function(c['func'], c['D'])
    total = np.zeros(f2.output_length())
    if c['strategy'] == 'dimwise':
        for g in combi.scheme:
            with impl.quiet():
                coords, levels, _ = combi.get_point_coord_for_each_dim(g.levelvector)
            grid = L['GlobalTrapezoidalGrid'](a=S['a'], b=S['b'], boundary=c.get('boundary', True), modified_basis=False)
            grid.set_grid(coords, levels)
            total = total + g.coefficient * np.asarray(grid.integrate(f2, g.levelvector, S['a'], S['b']), dtype=float)
        return total
    if c['strategy'] == 'extendsplit':
        for area in combi.refinement.get_objects():
            if hasattr(area, 'levelvec_dict'):
                saved = dict(area.levelvec_dict)
                area.levelvec_dict = {}
            for g in combi.scheme:
                lv, do = combi.coarsen_grid(g.levelvector, area)
                if do:
                    grid = local_grid(c, S['a'], S['b'])
                    total = total + g.coefficient * np.asarray(grid.integrate(f2, lv, area.start, area.end), dtype=float)
            if hasattr(area, 'levelvec_dict'):
                area.levelvec_dict = saved
        return total
    return None


def points_and_weights_value(S):
    combi, c = S['combi'], S['c']
    if c['strategy'] != 'dimwise':
        return None
    f2 = make_function(c['func'], c['D'])
    with impl.quiet():
        pts, w = combi.get_points_and_weights()
    if len(pts) == 0:
        return np.zeros(f2.output_length())
    vals = np.asarray([f2.eval(tuple(p)) for p in pts], dtype=float).reshape(len(pts), -1)
    return (np.asarray(w, dtype=float)[:, None] * vals).sum(axis=0)


def structure(S):
    """abstract refinement structure + scheme of a strategy instance"""
    combi, c = S['combi'], S['c']
    sch = sorted((tuple(int(x) for x in g.levelvector), float(g.coefficient)) for g in combi.scheme)
    if c['strategy'] == 'dimwise':
        tr = tuple(tuple((round(float(o.start), 12), round(float(o.end), 12), int(o.levels[0]), int(o.levels[1]), int(o.coarsening_level))
                         for o in combi.refinement.get_refinement_container_for_dim(d).get_objects()) for d in range(c['D']))
        return (tr, tuple(int(x) for x in combi.lmax)), sch
    if c['strategy'] == 'extendsplit':
        tr = tuple(sorted((tuple(np.round(np.asarray(o.start, dtype=float), 12)), tuple(np.round(np.asarray(o.end, dtype=float), 12)),
                           int(o.coarseningValue), int(o.needExtendScheme)) for o in combi.refinement.get_objects()))
        return (tr, tuple(int(x) for x in combi.lmax)), sch
    tr = tuple(sorted((tuple(np.round(np.asarray(o.start, dtype=float), 12)), tuple(np.round(np.asarray(o.end, dtype=float), 12)))
                      for o in combi.refinement.get_objects()))
    return (tr, tuple(int(x) for x in combi.lmax)), sch


def close(x, y, tol=1e-11):
    if x is None or y is None:
        return True
    x = np.atleast_1d(np.asarray(x, dtype=float))
    y = np.atleast_1d(np.asarray(y, dtype=float))
    return x.shape == y.shape and bool(np.all(np.abs(x - y) <= tol * np.maximum(1.0, np.abs(y))))


class Recorder:
    """wraps evaluate_operation / refine of one strategy instance and records the driver events"""

    def __init__(self, S, tol, check_comb=True, ignore_points=()):
        self.S, self.events, self.tol = S, [], tol
        # reference evaluations at user-given diagnostic points are not grid evaluations
        self.ignore = {tuple(float(x) for x in p) for p in ignore_points}
        self.results = []
        self.check_comb = check_comb
        combi = S['combi']
        self.counter = Counting(S['f'])
        oe, orf = combi.evaluate_operation, combi.refine
        rec = self

        def ev():
            out = oe()
            rec.after_eval(out)
            return out

        def rf():
            rec.events.append({'k': 'R'})
            return orf()
        combi.evaluate_operation = ev
        combi.refine = rf

    def after_eval(self, out):
        S = self.S
        combi = S['combi']
        err = out[0]
        res = np.array(combi.operation.get_result(), dtype=float, copy=True)
        self.results.append(res)
        np_rep = combi.get_total_num_points(distinct_function_evals=True)
        e = {'k': 'E', 'np': int(np_rep), '_err': float(err) if err is not None else None}
        e['eok'] = bool(err <= self.tol)
        e['nonneg'] = bool(err >= 0) and bool(out[1] >= 0) and all(o.benefit is None or o.benefit >= 0 for o in self.objects())
        e['err_true'] = bool(abs(err - norm_error(res, S['ref'], S['norm'])) <= 1e-12 * max(1.0, abs(err)))
        indep = len(self.counter.seen - self.ignore)
        e['np_true'] = int(np_rep) == indep or getattr(self, 'skip_np', False)
        e['_np_indep'] = indep
        if self.check_comb:
            ind = independent_combination(S)
            e['res_comb'] = close(res, ind)
            e['_indep'] = None if ind is None else [float(x) for x in ind]
            pw = points_and_weights_value(S)
            if pw is not None and not close(res, pw, 1e-10):
                e['res_comb'] = False
                e['_pw'] = [float(x) for x in pw]
        else:
            e['res_comb'] = True
        e['_res'] = [float(x) for x in res]
        self.events.append(e)

    def objects(self):
        combi = self.S['combi']
        try:
            if self.S['c']['strategy'] == 'dimwise':
                return [o for d in range(self.S['c']['D']) for o in combi.refinement.get_refinement_container_for_dim(d).get_objects()]
            return list(combi.refinement.get_objects())
        except Exception:
            return []


def option_kw(S, c):
    """keyword arguments of performSpatiallyAdaptiv for the driver options of configuration c"""
    kw = {}
    if c.get('single_step'):
        kw['single_step'] = True
    if c.get('recalc'):
        S['combi'].refinements_for_recalculate = c['recalc']
        kw['recalculate_frequently'] = True
    if c.get('test_scheme'):
        kw['test_scheme'] = True      # the library's own validity check of the final scheme (asserts coefficient sum 1 at every point)
    return kw


def last_count(events):
    """single_step bookkeeping at the end of a recorded part: the point count seen before the last refinement (-1: no refinement yet)"""
    last, np_ = -1, -1
    for e in events:
        if e['k'] == 'E':
            np_ = e['np']
        elif e['k'] == 'R':
            last = np_
    return last


def run_once(c, lims, reeval=False, checks=True, evaluation_points=None, max_time=None):
    """one adaptive run; returns (S, recorder, ret).  c['single_step'] = single_step option; c['recalc'] = N: recalculate_frequently with
    refinements_for_recalculate = N (the library's default of 100 is never reached by runs of this size)"""
    S = build(c)
    rec = Recorder(S, lims['tol'], check_comb=checks, ignore_points=evaluation_points or ())
    kw = {} if max_time is None else {'max_time': max_time}
    kw.update(option_kw(S, c))
    with impl.quiet(), impl.watchdog(c.get('timeout', 240)):
        ret = S['combi'].performSpatiallyAdaptiv(c['lmin'], c['lmax'], S['ec'], tol=lims['tol'], max_evaluations=lims['max'],
                                                min_evaluations=lims['min'], print_output=False, reevaluate_at_end=reeval,
                                                evaluation_points=evaluation_points, **kw)
    return S, rec, ret


def run_again(S, rec, c, lims):
    """a further performSpatiallyAdaptiv on the SAME driver object (histories and counters must start afresh); the function cache
    of the first run is still filled, so the independent evaluation count is not comparable and that clause is skipped"""
    rec.events = []
    rec.results = []
    rec.tol = lims['tol']
    rec.skip_np = True
    with impl.quiet(), impl.watchdog(c.get('timeout', 240)):
        ret = S['combi'].performSpatiallyAdaptiv(c['lmin'], c['lmax'], S['ec'], tol=lims['tol'], max_evaluations=lims['max'],
                                                min_evaluations=lims['min'], print_output=False, **option_kw(S, c))
    return ret


def ret_event(S, rec, ret, c, lims, with_c05=True):
    lens = [len(ret[5]), len(ret[6]), len(ret[7])]
    if len(ret[8]) or len(ret[9]):
        lens += [len(ret[8]), len(ret[9])]
    ev = {'k': 'Ret', 'lens': [int(x) for x in lens], 'final_comb': True, 'reeval_same': True, 'reeval_flag_same': True, 'pw_same': True}
    res = np.asarray(ret[3], dtype=float)
    ev['_result'] = [float(x) for x in np.atleast_1d(res)]
    if with_c05:
        ind = independent_combination(S)
        ev['final_comb'] = close(res, ind)
        pw = points_and_weights_value(S)
        ev['pw_same'] = close(res, pw, 1e-10)
        ev['_pw'] = None if pw is None else [float(x) for x in pw]
        # re-evaluation from scratch on a copy of the finished instance
        try:
            S2 = copy.deepcopy(S)
            with impl.quiet(), impl.watchdog(240):
                re_res, _ = S2['combi'].evaluate_final_combi()
            ev['reeval_same'] = close(res, re_res, 1e-10)
            ev['_reeval'] = [float(x) for x in np.atleast_1d(re_res)]
        except impl.Timeout:
            raise
        except Exception as ex:
            ev['reeval_same'] = False
            ev['_reeval'] = repr(ex)
        # the same run asked to re-evaluate at the end
        try:
            S3, rec3, ret3 = run_once(c, lims, reeval=True, checks=False)
            ev['reeval_flag_same'] = close(res, ret3[3], 1e-10)
            ev['_reeval_flag'] = [float(x) for x in np.atleast_1d(ret3[3])]
        except impl.Timeout:
            raise
        except Exception as ex:
            ev['reeval_flag_same'] = False
            ev['_reeval_flag'] = repr(ex)
    return ev


def limit_grid(probe_events, rng, n):
    """limit triples derived from a probe run so that every stop reason occurs at several evaluation indices"""
    E = [e for e in probe_events if e['k'] == 'E']
    errs = [e['_err'] for e in E]
    nps = [e['np'] for e in E]
    out = []
    big = 10 ** 9
    for j in range(len(E)):
        out.append({'tol': -1.0, 'min': 1, 'max': nps[j] - 1})            # maximum exceeded at j
        out.append({'tol': -1.0, 'min': 1, 'max': nps[j]})                # maximum not yet exceeded at j
        out.append({'tol': errs[j], 'min': 1, 'max': None})               # tolerance met exactly at j (<=)
        out.append({'tol': errs[j], 'min': nps[min(j + 1, len(E) - 1)], 'max': None})   # tolerance met but minimum not
        out.append({'tol': errs[j] * 1.5 + 1e-300, 'min': nps[j], 'max': big})
        out.append({'tol': big, 'min': nps[j], 'max': None})               # minimum decides
        out.append({'tol': big, 'min': nps[j] + 1, 'max': nps[j]})         # min > max
        out.append({'tol': -1.0, 'min': nps[-1] + 1, 'max': nps[j] - 1})    # min > max, error never small: the maximum alone must stop the run
    out.append({'tol': big, 'min': 1, 'max': 0})                         # everything met at the first evaluation
    out.append({'tol': -1.0, 'min': 1, 'max': 0})
    out.append({'tol': big, 'min': 1, 'max': None})
    seen, uniq = set(), []
    for l in out:
        k = (l['tol'], l['min'], l['max'])
        if k not in seen:
            seen.add(k)
            uniq.append(l)
    rng.shuffle(uniq)
    return uniq[:n]


def to_trace(c, lims, events, origin, last0=-1):
    clean = [{k: v for k, v in e.items() if not k.startswith('_')} for e in events]
    return {'cfg': {'strategy': c['strategy'], 'minE': int(lims['min']), 'maxE': -1 if lims['max'] is None else int(lims['max']), 'single': bool(c.get('single_step', False)), 'last0': int(last0)},
            'events': clean, 'origin': origin, '_c': {k: (v if not isinstance(v, float) or v != np.inf else 'inf') for k, v in c.items()},
            '_lims': lims, '_events': events}
