"""C02 - the standard combination equals the sparse-grid interpolant.

spec/SparseGrid.tla enumerates (dimension, lmin, lmax, boundary flag); TLC checks the design-level identities (union =
sparse grid, coefficient sums, point counts, exact nodal reproduction in integer arithmetic) and the dumped states carry the
expected component point sets, the sparse grid and the exact combined quadrature weights.  One implementation test per
state x box: StandardCombi + TrapezoidalGrid + Integration against those expected values, plus hats / nodal functions /
an arbitrary function carried as output components."""
import itertools
import json
import random
from fractions import Fraction

import numpy as np

from harness.engine import impl, tlc
from harness.engine.report import Report
from harness.drivers.dimwise_common import hashval_vec, hat1d_vec, initial_hats, hat_integral

PROP = 'C02'
LAT = 16
BOXES = {1: [([0.0], [1.0]), ([-3.0], [7.25])],
         2: [([0.0, 0.0], [1.0, 1.0]), ([-1.0, 0.5], [2.0, 4.5]), ([0.0, 1.0], [1.0, 2.0]), ([-6.0, -3.0], [-3.0, 1.0])],
         3: [([0.0] * 3, [1.0] * 3), ([-1.0, 0.0, 2.0], [1.0, 0.3, 2.5]), ([0.0, 1.0, -2.0], [1.0, 2.0, 2.0])]}


def make_function(D, a, b, hats, nodal_pts):
    from sparseSpACE.Function import Function
    n_out = 1 + len(hats) + len(nodal_pts)
    npts = np.asarray(nodal_pts, dtype=float).reshape(len(nodal_pts), D)

    class VF(Function):
        def output_length(self):
            return n_out

        def eval_vectorized(self, coordinates):
            X = np.asarray(coordinates, dtype=float)
            shape = X.shape[:-1]
            X = X.reshape(-1, D)
            out = np.empty((len(X), n_out))
            out[:, 0] = hashval_vec(X, a, b)
            for j, h in enumerate(hats):
                v = np.ones(len(X))
                for d, (l, i) in enumerate(h):
                    v = v * hat1d_vec(l, i, a[d], b[d], X[:, d])
                out[:, 1 + j] = v
            for j in range(len(npts)):
                out[:, 1 + len(hats) + j] = np.all(np.abs(X - npts[j]) < 1e-12, axis=1).astype(float)
            return out.reshape(shape + (n_out,))

        def eval(self, coords):
            return self.eval_vectorized(np.asarray([coords], dtype=float))[0]
    return VF()


def test_state(rep, st, box, rng, tier):
    from sparseSpACE.StandardCombi import StandardCombi
    from sparseSpACE.Grid import TrapezoidalGrid
    from sparseSpACE.GridOperation import Integration
    c = st['cfg']
    D, lmin, lmax, bnd = c['D'], c['lmin'], c['lmax'], bool(c['bnd'])
    a, b = np.array(box[0]), np.array(box[1])
    to_real = lambda x: tuple(float(a[d] + (b[d] - a[d]) * x[d] / LAT) for d in range(D))
    sparse = sorted(tuple(x) for x in st['sparse'])
    sparse_real = [to_real(x) for x in sparse]
    hats = initial_hats(D, lmin, lmax, bnd)
    if len(hats) > 24:
        hats = rng.sample(hats, 24)
    nodal_idx = rng.sample(range(len(sparse)), min(6, len(sparse)))
    nodal_pts = [sparse_real[i] for i in nodal_idx]
    f = make_function(D, a, b, hats, nodal_pts)
    grid = TrapezoidalGrid(a=a, b=b, boundary=bnd)
    op = Integration(f=f, grid=grid, dim=D)
    combi = StandardCombi(a, b, operation=op)
    case = {'D': D, 'lmin': lmin, 'lmax': lmax, 'boundary': bnd, 'a': list(a), 'b': list(b)}
    sig = {'boundary': bnd, 'unit_box': bool(np.all(a == 0) and np.all(b == 1))}
    fails = []

    def fail(clause, what, **kw):
        fails.append(clause)
        rep.violation(clause, dict(sig, D=D), dict(case, **kw), what='D=%d (%d,%d) boundary=%s box %s-%s: %s' % (D, lmin, lmax, bnd, list(a), list(b), what))
    # half of the cases use a combination object that has already computed another level range (history dependence)
    prev = rng.choice([None, (1, 2), (lmax, lmax), (1, 1)]) if lmax <= 3 else None
    case['previous_use'] = prev
    try:
        with impl.quiet(), impl.watchdog(240):
            if prev is not None:
                combi.perform_operation(prev[0], max(prev))
                if D == 2:
                    # the earlier result is inspected with the library's own plotting routines (read-only requests) before the object is used again
                    case['inspected'] = True
                    try:
                        import matplotlib.pyplot as plt
                        combi.print_subspaces()
                        combi.print_resulting_combi_scheme()
                        combi.print_resulting_sparsegrid()
                        plt.close('all')
                    except impl.Timeout:
                        raise
                    except Exception as ex:      # what the plotting routines themselves do is outside the property
                        case['inspection_raised'] = repr(ex)
            scheme, _, res = combi.perform_operation(lmin, lmax)
    except impl.Timeout:
        rep.exclude('%s: timeout' % case)
        return
    except Exception as ex:
        fail('C02_NoException', 'perform_operation raised %r' % ex, exception=repr(ex))
        return
    snap = lambda p: tuple(int(round((float(p[d]) - a[d]) / (b[d] - a[d]) * LAT)) for d in range(D))
    onlat = lambda p: all(abs((float(p[d]) - a[d]) / (b[d] - a[d]) * LAT - round((float(p[d]) - a[d]) / (b[d] - a[d]) * LAT)) < 1e-9 for d in range(D))
    # scheme
    got = sorted((tuple(int(x) for x in g.levelvector), int(round(float(g.coefficient)))) for g in scheme)
    exp = sorted((tuple(p[0]), p[1]) for p in st['scheme'])
    if got != exp:
        fail('C02_Scheme', 'scheme %s differs from the inclusion-exclusion scheme %s' % (got[:4], exp[:4]))
    # component grids
    specpts = {tuple(k[0]): {tuple(x) for x in v} for k, v in st['pts'].items()} if isinstance(st['pts'], dict) else None
    union = set()
    for g in scheme:
        lv = tuple(int(x) for x in g.levelvector)
        with impl.quiet():
            P = combi.get_points_component_grid(list(lv))
            n = combi.get_num_points_component_grid(list(lv), False)
        if not all(onlat(p) for p in P):
            fail('C02_ComponentPoints', 'grid %s has points off the lattice' % (lv,))
            continue
        S = {snap(p) for p in P}
        union |= S
        if specpts is not None and lv in specpts and S != specpts[lv]:
            fail('C02_ComponentPoints', 'points of grid %s differ from the level-%s tensor grid' % (lv, lv), got=sorted(S)[:8])
        if int(n) != len(P) or len(S) != len(P):
            fail('C02_NumPoints', 'grid %s announces %s points, returns %d (%d distinct)' % (lv, n, len(P), len(S)))
    if union != set(sparse):
        fail('C02_UnionIsSparseGrid', 'union of component grids differs from the sparse grid (%d vs %d points)' % (len(union), len(sparse)))
    # combined weights
    with impl.quiet():
        pts, w = combi.get_points_and_weights()
    wsum = {}
    for p, wi in zip(pts, w):
        wsum[snap(p)] = wsum.get(snap(p), 0.0) + float(wi)
    unit = float(np.prod((b - a) / LAT))
    w2 = {tuple(k): v for k, v in st['weight2'].items()}
    for x in sparse:
        e = w2[x] * unit / 2 ** D
        if abs(wsum.get(x, 0.0) - e) > 1e-12 * max(1.0, abs(e)):
            fail('C02_CombinedWeights', 'combined weight at %s is %r, exact %r' % (x, wsum.get(x), e))
            break
    # integration: hats exactly, nodal functions = their combined weight
    res_returned = res                                  # the very object handed to the caller
    res = np.array(res, dtype=float, copy=True)
    for j, h in enumerate(hats):
        e = float(hat_integral(h, a, b))
        if abs(res[1 + j] - e) > 1e-11 * max(1.0, abs(e)):
            fail('C02_IntegratesHats', 'hat %s integrates to %r, exact %r' % (h, res[1 + j], e))
            break
    for j, i in enumerate(nodal_idx):
        e = w2[sparse[i]] * unit / 2 ** D
        if abs(res[1 + len(hats) + j] - e) > 1e-12 * max(1.0, abs(e)):
            fail('C02_IntegratesNodal', 'nodal function at %s integrates to %r, exact %r' % (sparse[i], res[1 + len(hats) + j], e))
            break
    # interpolation: point-wise at every sparse grid point and at off-grid lattice points (hats), and on a tensor grid
    try:
        with impl.quiet(), impl.watchdog(240):
            V = np.asarray(combi(sparse_real), dtype=float)
        ref0 = hashval_vec(np.asarray(sparse_real), a, b)
        if np.max(np.abs(V[:, 0] - ref0)) > 1e-9:
            k = int(np.argmax(np.abs(V[:, 0] - ref0)))
            fail('C02_ReproducesAtSparseGrid', 'arbitrary function not reproduced at %s (%r vs %r)' % (sparse[k], V[k, 0], ref0[k]))
        for j, i in enumerate(nodal_idx):
            col = V[:, 1 + len(hats) + j]
            e = np.zeros(len(sparse))
            e[i] = 1.0
            if np.max(np.abs(col - e)) > 1e-9:
                fail('C02_ReproducesNodal', 'nodal function of %s not reproduced' % (sparse[i],))
                break
        n = 2 ** (lmax + 1)
        axes = [[a[d] + (b[d] - a[d]) * k / n for k in range(n + 1)] for d in range(D)]
        X = list(itertools.product(*axes))
        if len(X) > 3000:
            X = rng.sample(X, 3000)
        XA = np.asarray(X)
        with impl.quiet(), impl.watchdog(240):
            XV = np.asarray(combi(X), dtype=float)
        for j, h in enumerate(hats):
            ref = np.ones(len(XA))
            for d, (l, i) in enumerate(h):
                ref = ref * hat1d_vec(l, i, a[d], b[d], XA[:, d])
            if np.max(np.abs(XV[:, 1 + j] - ref)) > 1e-9:
                fail('C02_InterpolatesHats', 'hat %s not interpolated exactly' % (h,))
                break
        # tensor-grid interpolation request
        m = 2 ** lmax
        gc = [np.array([a[d] + (b[d] - a[d]) * k / m for k in range(m + 1)]) for d in range(D)]
        with impl.quiet(), impl.watchdog(240):
            G = np.asarray(combi.interpolate_grid(gc), dtype=float)
        mesh = list(itertools.product(*[list(x) for x in gc]))
        G = G.reshape(len(mesh), -1)
        refm = np.ones((len(mesh), len(hats)))
        MA = np.asarray(mesh)
        for j, h in enumerate(hats):
            for d, (l, i) in enumerate(h):
                refm[:, j] = refm[:, j] * hat1d_vec(l, i, a[d], b[d], MA[:, d])
        if G.shape[0] == len(mesh) and len(hats) and np.max(np.abs(G[:, 1:1 + len(hats)] - refm)) > 1e-9:
            fail('C02_InterpolatesHatsOnTensorGrid', 'interpolate_grid does not reproduce the hats on the level-%d tensor grid' % lmax)
    except impl.Timeout:
        rep.exclude('%s: interpolation timeout' % case)
    except Exception as ex:
        fail('C02_NoException', 'interpolation raised %r' % ex, exception=repr(ex))
    # level study on the same object: a later run (other levels) must not alter the result that was returned for this one
    if lmax <= 3:
        try:
            with impl.quiet(), impl.watchdog(240):
                l2 = (lmin, lmax - 1) if lmax > lmin else (lmin, lmax + 1)
                combi.perform_operation(l2[0], l2[1])
            later = np.asarray(res_returned, dtype=float)
            if later.shape != res.shape or np.max(np.abs(later - res)) > 0.0:
                fail('C02_IntegratesHats', 'the integrals returned for levels (%d,%d) were altered by a later run with levels %s on the same object' % (lmin, lmax, l2),
                     returned=[float(x) for x in res[:6]], after_later_run=[float(x) for x in np.atleast_1d(later)[:6]])
        except impl.Timeout:
            rep.exclude('%s: level study timeout' % case)
        except Exception as ex:
            fail('C02_NoException', 'second run on the same object raised %r' % ex, exception=repr(ex))
    rep.count(1, key=json.dumps(case))
    rep.residual('implementation_tests_passed', not fails)
    rep.sample({'config': case, 'sparse_grid_points': len(sparse), 'hats_carried': len(hats), 'failed_clauses': fails}, limit=4)


def run(tier, seed):
    rep = Report(PROP, tier, seed, 'model_checking')
    rng = random.Random(seed)
    cfg = ('SPECIFICATION Spec\nCONSTANTS LAT = %d\n CONFIGS <- %s\nINVARIANT C02_UnionIsSparseGrid\nINVARIANT C02_CoeffSumOne\nINVARIANT C02_NumPoints\n'
           'INVARIANT C02_SchemeIsInclExcl\nINVARIANT C02_NodalReproduction\nCHECK_DEADLOCK FALSE\n' % (LAT, 'QuickCfgs' if tier == 'quick' else 'ThoroughCfgs'))
    r, g = tlc.run('MC_SparseGrid', cfg, 'c02', dump=True, timeout=3000)
    rep.tlc('SparseGrid ' + tier, r)
    if r.violated:
        raise tlc.TLCError('SparseGrid.tla violates %s' % r.violated)
    n = 0
    for sid in sorted(g.states):
        st = g.states[sid]
        D = st['cfg']['D']
        boxes = BOXES[D] if tier == 'thorough' else (BOXES[D][:2] if D < 3 or st['cfg']['lmax'] < 3 else BOXES[D][1:2])
        for box in boxes:
            test_state(rep, st, box, rng, tier)
            n += 1
    rep.cov['spec_states_tested_on_impl'] = n
    rep.cov['exhaustive'] = True
    rep.cov['rule'] = ('one implementation test per (configuration state of SparseGrid.tla, box): D<=3, 1<=lmin<=lmax<=%d, boundary on/off, unit / non-unit / '
                       'negative-offset boxes; distinct by (configuration, box)' % (3 if tier == 'quick' else 4))
    rep.assumptions += ['TLC/SANY', 'lattice abstraction of the affine box map', 'float comparison 1e-9 (interpolation) / 1e-11 (integrals) / 1e-12 (weights)']
    return rep.finish()


def replay(path, seed):
    print('re-run bin/check C02: the failing configuration and box are recorded in %s' % path)
    return run('quick', seed)
