"""C10 - hierarchical bases interpolate: surpluses reproduce every nodal value.

spec/HierLagrange.tla is an exact (rational arithmetic) model of the hierarchical Lagrange basis on dyadic refinement trees:
knot selection along the ancestor chain, restricted support, surpluses, interpolation.  TLC checks on every tree that the
collocation system is triangular (uniquely solvable), that interpolation returns the nodal values, the Kronecker property
and which monomials are reproduced everywhere (`rep`).  The library is bound state by state: GlobalLagrangeGrid /
GlobalBSplineGrid (boundary on / off / modified), tensor grids with >= 15 points per pole, the local LagrangeGrid /
BSplineGrid, and the basis classes on non-uniform knots.  Integer nodal values and lattice monomials make every expected
output an integer; the recorded outputs are snapped and judged by TLC (spec/HierBasisTrace.tla).  Derivative / integral
agreement with numerical differentiation / integration of the basis values is evaluated by the harness."""
import itertools
import json
import random
from fractions import Fraction

import numpy as np

from harness.engine import impl, tlc
from harness.engine.report import Report

PROP = 'C10'
INTERVALS = [(0.0, 1.0), (-1.0, 3.0), (0.1, 0.7)]


def lev(x, M):
    N = 2 ** M
    if x in (0, N):
        return 0
    t = 0
    while x % 2 == 0:
        x //= 2
        t += 1
    return M - t


def make_function(a, b, N, K):
    """vector valued function of the lattice coordinates t = (c - a) / (b - a) * N: three integer-valued components and the monomials t_0^k"""
    from sparseSpACE.Function import Function
    a = np.asarray(a, dtype=float)
    b = np.asarray(b, dtype=float)

    class F(Function):
        def output_length(self):
            return 3 + K + 1

        def t(self, c):
            return (np.asarray(c, dtype=float) - a) / (b - a) * N

        def eval(self, c):
            t = self.t(c)
            r = [int(round(v)) for v in t]
            v1 = (3 * r[0] * r[0] + 5 * r[0] + 7 * sum(x * (x + 1) for x in r[1:])) % 11 - 5
            v2 = (2 * r[0] + 3 * sum(r[1:]) + r[0] * r[-1]) % 7 - 3
            v3 = r[0] - 2 * r[-1]
            return np.array([float(v1), float(v2), float(v3)] + [float(t[0]) ** k for k in range(K + 1)])
    return F()


def scaled_function(f, scale):
    """the same function with all values multiplied by `scale`"""
    from sparseSpACE.Function import Function

    class Scaled(Function):
        def output_length(self):
            return f.output_length()

        def eval(self, c):
            return scale * np.asarray(f.eval(c), dtype=float)
    return Scaled()


def snap_ints(vals, tol=1e-7):
    out = []
    for v in np.asarray(vals, dtype=float).flatten():
        r = round(float(v))
        if not np.isfinite(v) or abs(v - r) > tol * max(1.0, abs(r)) or abs(r) >= 2 ** 31:
            return None
        out.append(int(r))
    return out


class Ctx:
    def __init__(self, rep, tier):
        self.rep, self.tier = rep, tier
        self.traces = {}       # P -> list of traces
        self.basis_seen = set()

    def add(self, P, trace):
        if trace['events']:
            self.traces.setdefault(P, []).append(trace)


def numeric_basis_checks(cx, basis, lo, hi, sig, info):
    """derivatives and integral of one basis object against numerical differentiation / integration of its values"""
    from numpy.polynomial import legendre
    rep = cx.rep
    knots = [float(k) for k in getattr(getattr(basis, 'spline', basis), 'knots', [lo, hi]) if np.isfinite(k)]
    key = (type(basis).__name__, getattr(basis, 'p', None), getattr(basis, 'index', None), tuple(round(k, 12) for k in knots), round(lo, 12), round(hi, 12))
    if key in cx.basis_seen:
        return
    cx.basis_seen.add(key)
    brk = sorted(set([lo, hi] + [k for k in knots if lo < k < hi]))
    scale = hi - lo
    xg, wg = legendre.leggauss(12)
    # integral
    try:
        p = getattr(basis, 'p', 3)
        cg, ww = legendre.leggauss(int(p / 2) + 1)
        with impl.quiet():
            got = float(basis.get_integral(lo, hi, cg, ww))
        ref = 0.0
        for s, e in zip(brk[:-1], brk[1:]):
            xs = (xg + 1) * (e - s) / 2 + s
            ref += float(np.sum(wg * np.array([basis(x) for x in xs])) * (e - s) / 2)
        rep.residual('integral_agrees', abs(got - ref) <= 1e-9 * scale)
        if abs(got - ref) > 1e-9 * scale:
            rep.violation('C10_IntegralAgrees', dict(sig, basis=type(basis).__name__), dict(info, knots=knots, got=got, reference=ref),
                          what='%s: get_integral %r differs from the numerical integral of the basis values %r (%s)' % (type(basis).__name__, got, ref, info))
    except impl.Timeout:
        raise
    except Exception as ex:
        rep.violation('C10_NoException', dict(sig, basis=type(basis).__name__, exception=type(ex).__name__, call='get_integral'), dict(info, exception=repr(ex)), what='get_integral raised %r (%s)' % (ex, info))
    # derivatives at interior points of every knot span
    for s, e in zip(brk[:-1], brk[1:]):
        for fr in (0.3, 0.71):
            x = s + fr * (e - s)
            # five-point stencils inside the knot span (error O(h^4)); the comparison is relative to the size of the basis values on the stencil
            h = 2e-3 * (e - s)
            try:
                d1 = float(basis.get_first_derivative(x))
                d2 = float(basis.get_second_derivative(x))
                fm2, fm1, f0, fp1, fp2 = (float(basis(x + k * h)) for k in (-2, -1, 0, 1, 2))
                n1 = (-fp2 + 8 * fp1 - 8 * fm1 + fm2) / (12 * h)
                n2 = (-fp2 + 16 * fp1 - 30 * f0 + 16 * fm1 - fm2) / (12 * h * h)
                F = max(abs(v) for v in (fm2, fm1, f0, fp1, fp2))
            except impl.Timeout:
                raise
            except Exception as ex:
                rep.violation('C10_NoException', dict(sig, basis=type(basis).__name__, exception=type(ex).__name__, call='derivative'), dict(info, x=x, exception=repr(ex)), what='derivative raised %r (%s)' % (ex, info))
                return
            ok1 = abs(d1 - n1) <= 1e-7 * (abs(n1) + F / (e - s))
            ok2 = abs(d2 - n2) <= 1e-6 * (abs(n2) + F / (e - s) ** 2)
            rep.residual('derivative_agrees', ok1 and ok2)
            if not ok1 or not ok2:
                rep.violation('C10_DerivativeAgrees', dict(sig, basis=type(basis).__name__, order=1 if not ok1 else 2),
                              dict(info, knots=knots, x=x, derivative=[d1, d2], numerical=[n1, n2]),
                              what='%s p=%s: derivative %r / %r differs from numerical differentiation %r / %r at %r (%s)' % (type(basis).__name__, getattr(basis, 'p', '?'), d1, d2, n1, n2, x, info))
                return


def global_grid_case(cx, kind, p, bnd, mod, trees, M, box, model_state=None, label=None, lag_model=None):
    """trees: one list of inner lattice points per dimension"""
    import sparseSpACE.Grid as G
    from sparseSpACE.ComponentGridInfo import ComponentGridInfo
    rep = cx.rep
    N = 2 ** M
    D = len(trees)
    a = np.array([box[0] + 0.25 * d for d in range(D)], dtype=float)
    b = np.array([box[1] + 0.5 * d for d in range(D)], dtype=float)
    lat = [[0] + sorted(t) + [N] for t in trees]
    xs = [[float(a[d] + (b[d] - a[d]) * v / N) for v in lat[d]] for d in range(D)]
    ls = [[lev(v, M) for v in lat[d]] for d in range(D)]
    nodes_lat = [l if bnd else l[1:-1] for l in lat]
    n0 = len(nodes_lat[0])
    complete = [set(t) == {x for x in range(1, N) if lev(x, M) <= max([lev(y, M) for y in t] + [0])} for t in trees]
    sig = {'kind': kind, 'api': 'Global%sGrid' % ('Lagrange' if kind == 'lagrange' else 'BSpline'), 'boundary': bnd, 'modified': mod, 'dim': D}
    info = {'kind': kind, 'p': p, 'boundary': bnd, 'modified': mod, 'trees': [sorted(t) for t in trees], 'M': M, 'box': [a.tolist(), b.tolist()]}
    K = min(p, n0 - 1) if D == 1 else 1
    evs = []
    try:
        with impl.quiet(), impl.watchdog(120):
            cls = G.GlobalLagrangeGrid if kind == 'lagrange' else G.GlobalBSplineGrid
            g = cls(a=a, b=b, boundary=bnd, modified_basis=mod, p=p)
            g.set_grid([list(x) for x in xs], [list(l) for l in ls])
            f = make_function(a, b, N, K)
            g.integrate(f, [1] * D, a, b)
            cg = ComponentGridInfo([1] * D, 1)
            pts = [tuple(float(v) for v in q) for q in g.getPoints()]
            vin = np.array([f.eval(q) for q in pts])
            back = np.asarray(g.interpolate(pts, cg), dtype=float)
            back_grid = np.asarray(g.interpolate_grid([[float(a[d] + (b[d] - a[d]) * v / N) for v in nodes_lat[d]] for d in range(D)], cg), dtype=float)
            sur = np.asarray(g.get_surplusses([1] * D), dtype=float)
            if D == 1:
                ev_lat = list(range(0, N + 1)) if (bnd or mod) else [v for v in range(0, N + 1) if nodes_lat[0][0] <= v <= nodes_lat[0][-1]]
                ev_pts = [(float(a[0] + (b[0] - a[0]) * v / N),) for v in ev_lat]
                pol = np.asarray(g.interpolate(ev_pts, cg), dtype=float)[:, 3:]
            bases = [list(g.basis[d]) for d in range(D)]
    except impl.Timeout:
        rep.exclude('timeout: %s' % info)
        return
    except Exception as ex:
        rep.violation('C10_NoException', dict(sig, exception=type(ex).__name__), dict(info, exception=repr(ex)), what='%s raised %r' % (info, ex))
        return
    rep.count(1, key=json.dumps([label or 'global', kind, p, bnd, mod, info['trees'], M, box]))
    # round trip, all outputs (integer components are snapped; the monomial components are compared after snapping too: they are integers at nodes)
    vi, vb = snap_ints(vin[:, :3].T), snap_ints(back[:, :3].T)
    if vi is None or vb is None or back.shape != vin.shape or np.abs(back - vin).max() > 1e-7 * max(1.0, np.abs(vin).max()):
        rep.violation('C10_RoundTrip', sig, dict(info, max_error=float(np.abs(back - vin).max()) if back.shape == vin.shape else None),
                      what='interpolating back differs from the nodal values by %s (%s)' % (float(np.abs(back - vin).max()) if back.shape == vin.shape else 'shape', info))
    else:
        nn = vin.shape[0]
        evs.append({'k': 'roundtrip', 'vin': [vi[i * nn:(i + 1) * nn] for i in range(3)], 'vback': [vb[i * nn:(i + 1) * nn] for i in range(3)], '_sig': sig})
    if back_grid.shape != vin.shape or np.abs(back_grid - vin).max() > 1e-7 * max(1.0, np.abs(vin).max()):
        rep.violation('C10_RoundTrip', dict(sig, call='interpolate_grid'), dict(info, max_error=float(np.abs(back_grid - vin).max()) if back_grid.shape == vin.shape else None),
                      what='interpolate_grid at the grid points differs from the nodal values (%s)' % info)
    no_model = (kind == 'lagrange' and bnd and model_state is None) or (kind == 'bspline' and bnd and not complete[0] and lag_model is None)
    if D == 1 and not no_model:      # without the model's prediction a non-reproduced monomial cannot be told from the recorded design limits
        for k in range(K + 1):
            s2 = dict(sig, degree=k, complete_tree=complete[0], p=p, both_level2_points=(N // 4 in trees[0] and 3 * N // 4 in trees[0]))
            if model_state is not None:
                s2['model_reproduces'] = bool(model_state['rep'][k]) if k in model_state['rep'] else None
            if lag_model is not None:
                s2['lagrange_model_reproduces'] = bool(lag_model['rep'][k])
            got = snap_ints(pol[:, k])
            if got is None:
                err = float(np.abs(pol[:, k] - np.array([float(v) ** k for v in ev_lat])).max())
                rep.violation('C10_PolyReproduced', s2, dict(info, degree=k, max_error=err), what='t^%d not reproduced (max error %.3g) on %s' % (k, err, info))
            else:
                evs.append({'k': 'poly', 'deg': k, 'xs': ev_lat, 'got': got, '_sig': s2})
        if model_state is not None:
            # I-level: surpluses of the monomials against the exact surpluses of the model
            order = nodes_lat[0]
            for k in range(K + 1):
                exp = [Fraction(*model_state['sur'][k][x]) for x in order]
                got = sur[3 + k, :]
                if len(got) != len(exp) or any(abs(float(e) - float(gv)) > 1e-9 * max(1.0, abs(float(e))) for e, gv in zip(exp, got)):
                    rep.drift('I_SurplusEqualsSpec', 'degree %d %s' % (k, info))
    # Kronecker property of the Lagrange bases, knots against the model
    if kind == 'lagrange':
        for d in range(D):
            for bobj in bases[d]:
                kn = [float(v) for v in bobj.knots]
                kl = [(v - a[d]) / (b[d] - a[d]) * N for v in kn]
                if any(abs(v - round(v)) > 1e-7 for v in kl):
                    rep.violation('C10_Kronecker', dict(sig, reason='knots off the grid'), dict(info, knots=kn), what='basis knots %s are not grid points (%s)' % (kn, info))
                    continue
                vals = snap_ints([bobj(v) for v in kn])
                if vals is None:
                    rep.violation('C10_Kronecker', sig, dict(info, knots=kn, values=[float(bobj(v)) for v in kn]), what='basis values at its knots are not 0/1: %s (%s)' % ([float(bobj(v)) for v in kn], info))
                else:
                    evs.append({'k': 'kronecker', 'knots': [int(round(v)) for v in kl], 'index': int(bobj.index) + 1, 'vals': vals, 'model': bool(bnd and model_state is not None and d == 0), '_sig': sig})
    for d in range(D):
        for bobj in bases[d]:
            numeric_basis_checks(cx, bobj, float(a[d]), float(b[d]), sig, dict(info, dim=d))
    cx.add(p if model_state is not None else min(p, 3), {'pts': sorted(trees[0]), 'events': evs, '_info': info})


def local_grid_case(cx, kind, p, bnd, mod, lv, box):
    import sparseSpACE.Grid as G
    rep = cx.rep
    D = len(lv)
    M = max(lv)
    N = 2 ** M
    a = np.array([box[0] + 0.25 * d for d in range(D)], dtype=float)
    b = np.array([box[1] + 0.5 * d for d in range(D)], dtype=float)
    sig = {'kind': kind, 'api': 'LagrangeGrid' if kind == 'lagrange' else 'BSplineGrid', 'boundary': bnd, 'modified': mod, 'dim': D}
    info = {'api': sig['api'], 'p': p, 'boundary': bnd, 'modified': mod, 'levels': list(lv), 'box': [a.tolist(), b.tolist()]}
    try:
        with impl.quiet(), impl.watchdog(120):
            cls = G.LagrangeGrid if kind == 'lagrange' else G.BSplineGrid
            g = cls(a=a, b=b, boundary=bnd, p=p, modified_basis=mod)
            f = make_function(a, b, N, 1)
            g.setCurrentArea(a, b, list(lv))
            g.integrate(f, list(lv), a, b)
            pts = [tuple(float(v) for v in q) for q in g.getPoints()]
            vin = np.array([f.eval(q) for q in pts])
            back = np.asarray(g.interpolate(pts, a, b, list(lv)), dtype=float)
            back_grid = np.asarray(g.interpolate_grid([sorted(set(q[d] for q in pts)) for d in range(D)], a, b, list(lv)), dtype=float)
            bases = [list(g.grids[d].splines) for d in range(D)]
    except impl.Timeout:
        rep.exclude('timeout: %s' % info)
        return
    except Exception as ex:
        rep.violation('C10_NoException', dict(sig, exception=type(ex).__name__), dict(info, exception=repr(ex)), what='%s raised %r' % (info, ex))
        return
    rep.count(1, key=json.dumps(['local', kind, p, bnd, mod, list(lv), box]))
    evs = []
    # nodal values are integers only where the node is a lattice point of the finest level: compare as floats and record the integer components
    err = float(np.abs(back - vin).max()) if back.shape == vin.shape else None
    if err is None or err > 1e-7 * max(1.0, np.abs(vin).max()):
        rep.violation('C10_RoundTrip', sig, dict(info, max_error=err), what='interpolating back differs from the nodal values by %s (%s)' % (err, info))
    elif back_grid.shape != vin.shape or np.abs(back_grid - vin).max() > 1e-7 * max(1.0, np.abs(vin).max()):
        rep.violation('C10_RoundTrip', dict(sig, call='interpolate_grid'), dict(info), what='interpolate_grid at the grid points differs from the nodal values (%s)' % info)
    elif all(l == M for l in lv):
        vi, vb = snap_ints(vin[:, :3].T), snap_ints(back[:, :3].T)
        nn = vin.shape[0]
        if vi is not None and vb is not None:
            evs.append({'k': 'roundtrip', 'vin': [vi[i * nn:(i + 1) * nn] for i in range(3)], 'vback': [vb[i * nn:(i + 1) * nn] for i in range(3)], '_sig': sig})
    for d in range(D):
        for bobj in bases[d]:
            numeric_basis_checks(cx, bobj, float(a[d]), float(b[d]), sig, dict(info, dim=d))
    cx.add(min(p, 3), {'pts': [], 'events': evs, '_info': info})


def standalone_bases(cx, rng, n):
    """BSpline / LagrangeBasis on random non-uniform knot vectors: partition of unity, Kronecker, derivative and integral agreement"""
    from sparseSpACE.BasisFunctions import BSpline, LagrangeBasis
    rep = cx.rep
    for _ in range(n):
        p = rng.choice([1, 2, 3, 5])
        nk = rng.randint(2 * p + 2, 2 * p + 6)
        kn = sorted(rng.sample(range(0, 40), nk))
        scale = rng.choice([1.0, 0.125, 3.0])
        off = rng.choice([0.0, -2.0, 0.1])
        knots = np.array([off + scale * k for k in kn], dtype=float)
        info = {'p': p, 'knots': knots.tolist()}
        sig = {'api': 'BasisFunctions', 'kind': 'bspline-nonuniform'}
        sp = [BSpline(p, i, knots) for i in range(nk - p - 1)]
        lo, hi = float(knots[p]), float(knots[nk - p - 1])
        xs = [lo + (hi - lo) * (i + 0.37) / 9 for i in range(9)]
        tot = [sum(s(x) for s in sp) for x in xs]
        rep.count(1, key=json.dumps(['standalone', p, kn, scale, off]))
        rep.residual('partition_of_unity', all(abs(t - 1) < 1e-10 for t in tot))
        if any(abs(t - 1) > 1e-10 for t in tot):
            rep.violation('C10_BSplineValues', sig, dict(info, sums=tot), what='B-splines of order %d on %s do not sum to one inside the knot range: %s' % (p, knots.tolist(), tot))
        for s in sp[: 4]:
            numeric_basis_checks(cx, s, float(knots[s.index]), float(knots[s.index + p + 1]), sig, info)
        lk = sorted(rng.sample(range(0, 40), p + 1))
        lkn = [off + scale * k for k in lk]
        evs = []
        for i in range(p + 1):
            lb = LagrangeBasis(p, i, lkn)
            vals = snap_ints([lb(v) for v in lkn])
            if vals is None:
                rep.violation('C10_Kronecker', {'api': 'BasisFunctions', 'kind': 'lagrange'}, {'knots': lkn, 'index': i, 'values': [float(lb(v)) for v in lkn]}, what='LagrangeBasis on %s index %d is not 0/1 at its knots' % (lkn, i))
            else:
                evs.append({'k': 'kronecker', 'knots': lk, 'index': i + 1, 'vals': vals, 'model': False, '_sig': {'api': 'BasisFunctions', 'kind': 'lagrange'}})
            numeric_basis_checks(cx, lb, float(lkn[0]), float(lkn[-1]), {'api': 'BasisFunctions', 'kind': 'lagrange'}, {'p': p, 'knots': lkn, 'index': i})
        cx.add(min(p, 3), {'pts': [], 'events': evs, '_info': {'standalone': True, 'knots': lkn}})


def bspline_states(cx, tier):
    """spec/BSplineBasis.tla: every knot vector of P + 2 even lattice knots is one implementation test of class BSpline
    (values, first derivative, integral against the exact rationals of the specification)"""
    from sparseSpACE.BasisFunctions import BSpline
    from numpy.polynomial import legendre
    rep = cx.rep
    L = 16
    for P in (1, 2, 3, 5):
        cfg = ('SPECIFICATION Spec\nCONSTANTS L = %d\n P = %d\nINVARIANT LocalSupport\nINVARIANT NonNegative\nINVARIANT DerivativeIsDerivative\nINVARIANT IntegralClosedForm\nCHECK_DEADLOCK FALSE\n' % (L, P))
        r, g = tlc.run('BSplineBasis', cfg, 'c10b', dump=True, timeout=1800)
        rep.tlc('BSplineBasis P=%d' % P, r)
        if r.violated:
            raise tlc.TLCError('BSplineBasis.tla violates %s' % r.violated)
        if r.distinct < 30:
            raise tlc.TLCError('vacuous: %d knot vectors' % r.distinct)
        for st in g.states.values():
            kn = list(st['knots'])
            for sc, off in ((1.0, 0.0), (0.125, -1.0)) + (((3.0, 0.1),) if tier == 'thorough' else ()):
                knots = np.array([off + sc * k for k in kn], dtype=float)
                info = {'p': P, 'knots': knots.tolist(), 'lattice_knots': kn}
                sig = {'api': 'BasisFunctions', 'kind': 'bspline', 'source': 'BSplineBasis.tla'}
                rep.count(1, key=json.dumps(['bspline-state', P, kn, sc, off]))
                try:
                    b = BSpline(P, 0, knots)
                    xs = list(range(0, L + 1))
                    v = [float(b(off + sc * x)) for x in xs]
                    d = [float(b.get_first_derivative(off + sc * x)) for x in xs]
                    cg, ww = legendre.leggauss(int(P / 2) + 1)
                    integ = float(b.get_integral(float(knots[0]), float(knots[-1]), cg, ww))
                except Exception as ex:
                    rep.violation('C10_NoException', dict(sig, exception=type(ex).__name__), dict(info, exception=repr(ex)), what='BSpline on %s raised %r' % (info, ex))
                    continue
                ev = [float(Fraction(*st['vals'][x])) for x in xs]
                ed = [float(Fraction(*st['ders'][x])) / sc for x in xs]
                same_vals = all(abs(a1 - b1) <= 1e-12 for a1, b1 in zip(v, ev))
                if not same_vals:
                    rep.drift('I_BSplineValues', '%s' % info)
                    continue
                dpts = [x for x in xs if P >= 2 or x not in kn]
                badd = [x for x in dpts if abs(d[x] - ed[x]) > 1e-10 * max(1.0, abs(ed[x]))]
                rep.residual('bspline_derivative_exact', not badd)
                if badd:
                    rep.violation('C10_DerivativeAgrees', dict(sig, order=1), dict(info, at=[off + sc * x for x in badd], derivative=[d[x] for x in badd], exact=[ed[x] for x in badd]),
                                  what='BSpline p=%d knots %s: first derivative %s differs from the exact derivative %s of its own values' % (P, knots.tolist(), [d[x] for x in badd][:3], [ed[x] for x in badd][:3]))
                exact_int = sc * (kn[-1] - kn[0]) / (P + 1)
                rep.residual('bspline_integral_exact', abs(integ - exact_int) <= 1e-10 * max(1.0, exact_int))
                if abs(integ - exact_int) > 1e-10 * max(1.0, exact_int):
                    rep.violation('C10_IntegralAgrees', sig, dict(info, got=integ, exact=exact_int), what='BSpline p=%d knots %s: get_integral %r differs from the exact integral %r of its values' % (P, knots.tolist(), integ, exact_int))


def random_tree_levels(rng, n):
    """levels of a random binary refinement tree over n sorted points (end points level 0): the root of every interval is any inner point"""
    lv = [0] * n

    def rec(lo, hi, L):
        if hi - lo < 2:
            return
        m = rng.randint(lo + 1, hi - 1)
        lv[m] = L
        rec(lo, m, L + 1)
        rec(m, hi, L + 1)
    rec(0, n - 1, 1)
    return lv


def reused_grid_sequences(cx, rng, trees, M, boxes, nseq):
    """ONE grid object per configuration is taken through a sequence of refinement trees: different point sets, the same point set with
    another (rebalanced) level assignment, the same tree on another box, tensor grids.  After every set_grid the round trip (hierarchise,
    interpolate back at the grid points, through interpolate and interpolate_grid) must hold - whatever the object was used for before."""
    import sparseSpACE.Grid as G
    from sparseSpACE.ComponentGridInfo import ComponentGridInfo
    rep = cx.rep
    N = 2 ** M
    confs = [('lagrange', 1, True, False), ('lagrange', 3, True, False), ('lagrange', 2, False, False), ('bspline', 1, True, False), ('bspline', 3, True, False),
             ('bspline', 3, False, False), ('bspline', 1, False, True)]
    for kind, p, bnd, mod in confs:
        for D in (1, 2):
            for q in range(nseq):
                cls = G.GlobalLagrangeGrid if kind == 'lagrange' else G.GlobalBSplineGrid
                box0 = boxes[q % len(boxes)]
                a = np.array([box0[0] + 0.25 * d for d in range(D)], dtype=float)
                b = np.array([box0[1] + 0.5 * d for d in range(D)], dtype=float)
                hist = []
                try:
                    with impl.quiet():
                        g = cls(a=a, b=b, boundary=bnd, modified_basis=mod, p=p)
                    cur = [list(rng.choice([t for t in trees if len(t) >= 2])) for _ in range(D)]
                    partner = None
                    for step in range(5):
                        mode = rng.choice(['new', 'relevel', 'relevel', 'same', 'one-dim'])
                        if mode == 'new' or step == 0:
                            cur = [list(rng.choice([t for t in trees if len(t) >= 2])) for _ in range(D)]
                        elif mode == 'one-dim':
                            cur[rng.randrange(D)] = list(rng.choice([t for t in trees if len(t) >= 2]))
                        lat = [[0] + sorted(t) + [N] for t in cur]
                        xs = [[float(a[d] + (b[d] - a[d]) * v / N) for v in lat[d]] for d in range(D)]
                        ls = [[lev(v, M) for v in lat[d]] for d in range(D)]
                        if mode == 'relevel':
                            ls = [random_tree_levels(rng, len(lat[d])) for d in range(D)]
                        hist.append({'mode': mode, 'points': [sorted(t) for t in cur], 'levels': ls})
                        with impl.quiet(), impl.watchdog(120):
                            if q % 2 == 1:
                                # containers the caller keeps: the same list objects as in the previous call, rewritten in place
                                if step == 0:
                                    own_x, own_l = [[] for _ in range(D)], [[] for _ in range(D)]
                                for d in range(D):
                                    own_x[d][:] = list(xs[d])
                                    own_l[d][:] = list(ls[d])
                                g.set_grid(own_x, own_l)
                            else:
                                g.set_grid([list(x) for x in xs], [list(l) for l in ls])
                            # the function values have the magnitude `scale` (1, 1e-10 or 1e8 per sequence): every comparison is relative to it
                            scale = [1.0, 1e-10, 1e8][q % 3]
                            f = scaled_function(make_function(a, b, N, 0), scale)
                            g.integrate(f, [1] * D, a, b)
                            cg = ComponentGridInfo([1] * D, 1)
                            if step % 2 == 1:
                                # a second grid object of the same class is used in between (another tree, another function): the two objects
                                # must not share anything
                                if partner is None:
                                    partner = cls(a=a, b=b, boundary=bnd, modified_basis=mod, p=p)
                                tp = [list(rng.choice([t for t in trees if len(t) >= 2])) for _ in range(D)]
                                latp = [[0] + sorted(t) + [N] for t in tp]
                                partner.set_grid([[float(a[d] + (b[d] - a[d]) * v / N) for v in latp[d]] for d in range(D)], [[lev(v, M) for v in latp[d]] for d in range(D)])
                                partner.integrate(scaled_function(make_function(a, b, N, 0), -3.5 * scale), [1] * D, a, b)
                            pts = [tuple(float(v) for v in qq) for qq in g.getPoints()]
                            vin = np.array([f.eval(qq) for qq in pts])
                            back = np.asarray(g.interpolate(pts, cg), dtype=float)
                            nodes = [l if bnd else l[1:-1] for l in lat]
                            back_grid = np.asarray(g.interpolate_grid([[float(a[d] + (b[d] - a[d]) * v / N) for v in nodes[d]] for d in range(D)], cg), dtype=float)
                        rep.count(1, key=json.dumps(['reused', kind, p, bnd, mod, D, q, step]))
                        sig = {'kind': kind, 'api': 'Global%sGrid' % ('Lagrange' if kind == 'lagrange' else 'BSpline'), 'boundary': bnd, 'modified': mod, 'dim': D, 'reused_object': True}
                        for nm, bk in (('interpolate', back), ('interpolate_grid', back_grid)):
                            if bk.shape != vin.shape or np.abs(bk - vin).max() > 1e-7 * scale * max(1.0, np.abs(vin).max() / scale):
                                err = float(np.abs(bk - vin).max()) if bk.shape == vin.shape else None
                                rep.violation('C10_RoundTrip', dict(sig, call=nm), {'kind': kind, 'p': p, 'boundary': bnd, 'modified': mod, 'box': [a.tolist(), b.tolist()], 'history': hist, 'max_error': err},
                                              what='grid object re-used along %d trees (last step: %s): %s at the grid points differs from the nodal values by %s (%s p=%d boundary=%s)' % (len(hist), mode, nm, err, kind, p, bnd))
                except impl.Timeout:
                    rep.exclude('timeout: reused %s p=%d' % (kind, p))
                except Exception as ex:
                    rep.violation('C10_NoException', {'kind': kind, 'boundary': bnd, 'modified': mod, 'reused_object': True, 'exception': type(ex).__name__},
                                  {'kind': kind, 'p': p, 'history': hist, 'exception': repr(ex)}, what='re-used %s grid p=%d boundary=%s raised %r after %s' % (kind, p, bnd, ex, hist[-1:] ))


def run(tier, seed):
    rep = Report(PROP, tier, seed, 'exploration')
    rng = random.Random(seed)
    impl.check_import()
    cx = Ctx(rep, tier)
    M = 4
    N = 2 ** M
    boxes = INTERVALS[:2] if tier == 'quick' else INTERVALS
    models = {}
    for P in (1, 2, 3, 5):
        cfg = ('SPECIFICATION Spec\nCONSTANTS M = %d\n P = %d\nINVARIANT C10_RoundTrip\nINVARIANT C10_Kronecker\nINVARIANT C10_Hierarchical\nINVARIANT ReproMonotone\n'
               'INVARIANT ReproLinear\nINVARIANT ReproQuadratic\nINVARIANT ReproComplete\nCHECK_DEADLOCK FALSE\n' % (M, P))
        r, g = tlc.run('HierLagrange', cfg, 'c10', dump=True, timeout=1800)
        rep.tlc('HierLagrange P=%d' % P, r)
        if r.violated:
            raise tlc.TLCError('HierLagrange.tla violates %s' % r.violated)
        if r.distinct < 26:
            raise tlc.TLCError('vacuous: %d trees' % r.distinct)
        models[P] = {tuple(sorted(st['pts'])): st for st in g.states.values()}
        nstated = sum(1 for st in g.states.values() for k in range(P + 1) if k <= len(st['pts']) + 1 and not st['rep'][k])
        rep.sample({'model': 'HierLagrange', 'P': P, 'trees': len(g.states), 'tree_degree_pairs_within_the_stated_bound_not_reproduced_by_the_model': nstated}, limit=8)
    trees = sorted(models[1])
    # ---- one test per state: global grids, D = 1
    for t in trees:
        if not t:
            continue
        for bi, box in enumerate(boxes):
            for p in (1, 2, 3, 5):
                global_grid_case(cx, 'lagrange', p, True, False, [list(t)], M, box, model_state=models[p][t])
                for bnd, mod in ((False, False), (False, True)):
                    global_grid_case(cx, 'lagrange', p, bnd, mod, [list(t)], M, box)
            for p in (1, 3, 5):
                for bnd, mod in ((True, False), (False, False), (False, True)):
                    global_grid_case(cx, 'bspline', p, bnd, mod, [list(t)], M, box, lag_model=models[p][t])
    # ---- tensor grids, vector valued, both solver paths (>= 15 points per pole: QR)
    full = [x for x in range(1, N)]
    near = [x for x in range(1, N) if x not in (1, 15)]
    small = [8, 12, 10]
    pairs = [(full, small), (small, full), (near, [8]), (small, small)] + ([(full, near), (near, full)] if tier == 'thorough' else [])
    for ta, tb in pairs:
        for kind, p in (('lagrange', 3), ('bspline', 3), ('lagrange', 2), ('bspline', 5), ('lagrange', 5), ('bspline', 1)):
            for bnd, mod in ((True, False), (False, False)) + (((False, True),) if kind == 'bspline' else ()):
                global_grid_case(cx, kind, p, bnd, mod, [list(ta), list(tb)], M, boxes[0], label='tensor')
    for t1 in ([full, near] + ([list(t) for t in rng.sample(trees[1:], 6)] if tier == 'thorough' else [])):
        for kind, ps in (('lagrange', (1, 2, 3, 5)), ('bspline', (1, 3, 5))):
            for p in ps:
                mt = models[p].get(tuple(sorted(t1)))
                global_grid_case(cx, kind, p, True, False, [list(t1)], M, boxes[-1], label='large', model_state=mt if kind == 'lagrange' else None, lag_model=mt if kind == 'bspline' else None)
    # ---- local grids (regular levels)
    lvs = [(l,) for l in range(1, 5)] + [(1, 2), (2, 1), (2, 2), (4, 1), (1, 4), (3, 2)] + ([(4, 2), (2, 4), (3, 3)] if tier == 'thorough' else [])
    for lv in lvs:
        for kind, ps in (('lagrange', (1, 2, 3, 5)), ('bspline', (1, 3, 5))):
            for p in ps:
                for bnd, mod in ((True, False), (False, False), (False, True)):
                    local_grid_case(cx, kind, p, bnd, mod, lv, boxes[0])
    reused_grid_sequences(cx, rng, trees, M, boxes, 3 if tier == 'quick' else 12)
    standalone_bases(cx, rng, 40 if tier == 'quick' else 400)
    bspline_states(cx, tier)
    # ---- TLC judges the recorded (snapped) outputs
    for P, traces in sorted(cx.traces.items()):
        clean = [{'pts': t['pts'], 'events': [{k: v for k, v in e.items() if not k.startswith('_')} for e in t['events']]} for t in traces]
        verdicts, stt, trn = tlc.validate_traces('HierBasisTrace', clean, 'c10', constants='CONSTANTS M = %d\n P = %d\n' % (M, P), chunk=1500, unevaluable='C10_SpecEvaluable')
        rep.cov['states'] += stt
        rep.cov['transitions'] += trn
        rep.cov['traces_validated_against_impl'] += len(traces)
        for tr, v in zip(traces, verdicts):
            for step, clause in v:
                e = tr['events'][step - 1]
                if clause.startswith('I_'):
                    rep.drift(clause, '%s' % tr['_info'])
                else:
                    rep.violation(clause, e['_sig'], dict(tr['_info'], event={k: v2 for k, v2 in e.items() if not k.startswith('_')}), what='%s on %s (event %s)' % (clause, tr['_info'], e['k']))
    rep.cov['rule'] = 'one evaluation per grid built in the library; distinct by (family, order, boundary / modified flags, tree(s) or levels, box)'
    rep.assumptions += ['TLC/SANY', 'outputs snapped to integers (1e-7 relative); derivative / integral agreement measured with central differences (1e-5 / 1e-4) and 12-point Gauss-Legendre per knot span (1e-9)',
                        'trees of depth <= 3 on the 17-point lattice; larger grids only for the round trip']
    return rep.finish()


def replay(path, seed):
    print('re-run bin/check C10: the failing case is recorded in %s' % path)
    return run('quick', seed)
