"""C17 - density-estimation caching and size-dependent code paths are transparent.

Model: spec/HatSystems.tla carries the reuse-cache key of every pair of hats (overlap widths and point distances) next to the
exact matrix entry; TLC checks that the key determines the value (C17_KeyDeterminesValue).  Binding: (A) the keys the library
computes for the same pairs are compared with the spec keys and the global table (library key -> exact value) over all
enumerated grids must be a function; (B) two-run check: adaptive dimension-wise density estimation with reuse_old_values on
and off on the same data, surpluses / scheme / interpolated densities compared after runs of increasing length (component
grids on both sides of the 200-point threshold); (C) the small-grid and large-grid implementations of interpolation and of
the right-hand side are forced onto the same grids and compared."""
import itertools
import json
import random
from fractions import Fraction

import numpy as np

from harness.engine import impl, tlc
from harness.engine.report import Report
from harness.drivers import c16_density as H

PROP = 'C17'
LAT = H.LAT


def key_table(rep, states):
    from sparseSpACE.GridOperation import DensityEstimation
    from sparseSpACE.Grid import GlobalTrapezoidalGrid
    table = {}
    drift = 0
    for st in states:
        D = st['dim']
        order, grids = H.point_order(st)
        mass, _, _ = H.state_matrices(st)
        coords = [[p / LAT for p in g] for g in grids]
        levels = [H.tree_levels(g) for g in grids]
        grid = GlobalTrapezoidalGrid(a=np.zeros(D), b=np.ones(D), boundary=False)
        op = DensityEstimation(np.zeros((1, D)), D, grid=grid, pre_scaled_data=True)
        with impl.quiet():
            grid.set_grid(coords, levels)
            points, lower, upper = op.get_hat_domain_for_every_grid_point_vectorized(coords)
        speckeys = {}
        for k in st['keys']:
            speckeys.setdefault((tuple(k[0][0]), tuple(k[0][1])), set()).add(H.fr(k[1]))
        for i, p in enumerate(order):
            for j, q in enumerate(order):
                if j < i:
                    continue
                with impl.quiet():
                    w, dist = op.get_domain_overlap_width(points[i], list(zip(lower[i], upper[i])), points[j], list(zip(lower[j], upper[j])))
                key = (tuple(int(round(x * LAT)) for x in w), tuple(int(round(x * LAT)) for x in dist))
                val = mass[(p, q)]
                rep.count(1, key=('key', json.dumps(grids), i, j), nontrivial=val != 0)
                if key not in speckeys or val not in speckeys[key]:
                    drift += 1
                old = table.get(key)
                if old is not None and old[0] != val:
                    rep.violation('C17_KeyDeterminesValue', {'stage': 'cache-key'},
                                  {'key': key, 'first': {'grid': old[1], 'pair': old[2], 'value': str(old[0])}, 'second': {'grid': grids, 'pair': [list(p), list(q)], 'value': str(val)}},
                                  what='reuse-cache key %s stands for two different matrix entries: %s (grid %s) and %s (grid %s)' % (key, old[0], old[1], val, grids))
                elif old is None:
                    table[key] = (val, grids, [list(p), list(q)])
    if drift:
        rep.drift('%d library cache keys differ from the specification keys' % drift)
    rep.cov['cache_keys_distinct'] = len(table)


def make_data(kind, n, rng):
    r = np.random.RandomState(rng.randint(0, 10 ** 6))
    if kind == 'blobs':
        X = np.vstack([r.normal([0.3, 0.3], 0.08, (n // 2, 2)), r.normal([0.7, 0.6], 0.1, (n - n // 2, 2))])
        y = np.array([1.0] * (n // 2) + [-1.0] * (n - n // 2))
    elif kind == 'cluster':       # one tight cluster off the centre plus two corner samples: one-sided refinement, the tree is rebalanced early
        X = np.vstack([r.normal([0.8, 0.3], 0.05, (n - 2, 2)), [[0.0, 0.0], [1.0, 1.0]]])
        y = np.where(r.rand(n) < 0.5, 1.0, -1.0)
        return np.clip(X, 0.0, 1.0), y
    elif kind == 'lattice':       # samples exactly on dyadic grid lines
        X = r.randint(1, 16, (n, 2)) / 16.0
        y = np.where(r.rand(n) < 0.5, 1.0, -1.0)
    else:
        X = r.rand(n, 2) * 0.9 + 0.05
        y = np.where(X[:, 0] + X[:, 1] > 1.0, 1.0, -1.0)
    return np.clip(X, 0.01, 0.99), y


def de_run(data, classes, lam, lump, reuse, budget, lmin, lmax, rebalancing=False):
    from sparseSpACE.GridOperation import DensityEstimation
    from sparseSpACE.Grid import GlobalTrapezoidalGrid
    from sparseSpACE.spatiallyAdaptiveSingleDimension2 import SpatiallyAdaptiveSingleDimensions2
    from sparseSpACE.ErrorCalculator import ErrorCalculatorSingleDimVolumeGuided
    D = data.shape[1]
    a, b = np.zeros(D), np.ones(D)
    grid = GlobalTrapezoidalGrid(a=a, b=b, modified_basis=False, boundary=False)
    op = DensityEstimation(np.array(data), D, grid=grid, lambd=lam, masslumping=lump, classes=None if classes is None else np.array(classes),
                           reuse_old_values=reuse, numeric_calculation=False, pre_scaled_data=True)
    combi = SpatiallyAdaptiveSingleDimensions2(a, b, operation=op, margin=0.5, rebalancing=rebalancing)
    with impl.quiet(), impl.watchdog(600):
        combi.performSpatiallyAdaptiv(lmin, lmax, ErrorCalculatorSingleDimVolumeGuided(), 0.0, max_evaluations=budget, print_output=False)
    X = [(0.1 + 0.8 * i / 6, 0.1 + 0.8 * j / 6) for i in range(7) for j in range(7)] + [(0.5, 0.5), (0.25, 0.75), (0.125, 0.5)]
    with impl.quiet(), impl.watchdog(600):
        dens = np.asarray(combi(X), dtype=float)
    sch = sorted((tuple(int(x) for x in g.levelvector), float(g.coefficient)) for g in combi.scheme)
    sur = {tuple(int(x) for x in k): np.asarray(v, dtype=float) for k, v in op.surpluses.items() if tuple(int(x) for x in k) in dict(sch)}
    return sch, sur, dens, max(len(v) for v in sur.values())


def two_run(rep, tier, rng):
    cases = [('blobs', 120, 0.01, False, True, 2, 4), ('lattice', 80, 0.05, True, False, 2, 4), ('diag', 150, 0.02, False, True, 2, 4), ('lattice', 150, 0.02, False, False, 3, 5),
             # tree rebalancing on (the default of the strategy): level assignments of existing points change between two evaluations
             ('cluster', 102, 0.02, False, False, 3, 5, True), ('diag', 120, 0.01, False, True, 2, 4, True)]
    if tier == 'thorough':
        cases += [('blobs', 300, 0.0, True, False, 2, 4), ('lattice', 200, 0.02, False, True, 2, 4), ('diag', 100, 1.0, False, False, 1, 3), ('blobs', 200, 0.001, False, True, 3, 4),
                  ('lattice', 150, 0.02, False, False, 3, 5, True), ('blobs', 200, 0.001, False, True, 3, 4, True)]
    for case in cases:
        kind, n, lam, lump, with_classes, lmin, lmax = case[:7]
        rebal = len(case) > 7 and case[7]
        data, y = make_data(kind, n, rng)
        classes = y if with_classes else None
        for budget in (([60, 400, 900] if kind != 'cluster' else [400, 1500]) if tier == 'quick' else [40, 120, 300, 600, 1200, 1500]):
            name = '%s n=%d lambda=%s lumping=%s classes=%s (%d,%d) budget=%d%s' % (kind, n, lam, lump, with_classes, lmin, lmax, budget, ' rebalancing' if rebal else '')
            try:
                s0, u0, d0, big0 = de_run(data, classes, lam, lump, False, budget, lmin, lmax, rebalancing=rebal)
                s1, u1, d1, big1 = de_run(data, classes, lam, lump, True, budget, lmin, lmax, rebalancing=rebal)
            except impl.Timeout:
                rep.exclude(name + ': timeout')
                continue
            except Exception as ex:
                rep.violation('C17_NoException', {'stage': 'two-run', 'exception': type(ex).__name__}, {'case': name, 'exception': repr(ex)}, what='%s raised %r' % (name, ex))
                continue
            rep.count(1, key=name)
            rep.cov['largest_component_grid'] = max(rep.cov.get('largest_component_grid', 0), big0)
            tol = 1e-7
            same_scheme = s0 == s1
            sur_ok = same_scheme and all(k in u1 and u0[k].shape == u1[k].shape and np.allclose(u0[k], u1[k], rtol=tol, atol=tol * max(1.0, float(np.max(np.abs(u0[k]))))) for k in u0)
            dens_ok = d0.shape == d1.shape and np.allclose(d0, d1, rtol=tol, atol=tol * max(1.0, float(np.max(np.abs(d0)))))
            rep.residual('two_run_agreement', same_scheme and sur_ok and dens_ok)
            if not (same_scheme and sur_ok and dens_ok):
                worst = max([float(np.max(np.abs(u0[k] - u1[k]))) for k in u0 if k in u1 and u0[k].shape == u1[k].shape] or [float('nan')])
                rep.violation('C17_ReuseTransparent', {'stage': 'two-run', 'scheme_same': same_scheme},
                              {'case': name, 'scheme_off': s0, 'scheme_on': s1, 'max_surplus_difference': worst, 'max_density_difference': float(np.max(np.abs(d0 - d1))) if d0.shape == d1.shape else None},
                              what='%s: reuse on vs off differ (scheme same: %s, max surplus difference %r)' % (name, same_scheme, worst))
            rep.sample({'case': name, 'component_grids': len(s0), 'largest_grid_points': big0}, limit=4)


def size_paths(rep, tier, rng):
    """small-grid vs large-grid implementations on one and the same grid (the branch is chosen by grid.get_num_points())"""
    from sparseSpACE.GridOperation import DensityEstimation
    from sparseSpACE.Grid import GlobalTrapezoidalGrid
    from sparseSpACE.ComponentGridInfo import ComponentGridInfo
    D = 2
    grids = [([0, 2, 4, 6, 8], [0, 1, 2, 4, 8]), ([0, 1, 2, 3, 4, 5, 6, 7, 8], [0, 2, 3, 4, 8]), ([0, 4, 6, 7, 8], [0, 2, 4, 5, 6, 8])]
    if tier == 'thorough':
        grids += [(list(range(0, 17)), list(range(0, 17))), ([0, 4, 8], [0, 1, 2, 3, 4, 6, 8])]
    for g1, g2 in grids:
        L = max(g1[-1], g2[-1])
        coords = [[p / g1[-1] for p in g1], [p / g2[-1] for p in g2]]
        levels = [[0] + [1] * (len(c) - 2) + [0] for c in coords]
        data, y = make_data('lattice', 60, rng)
        n = (len(g1) - 2) * (len(g2) - 2)
        surplus = np.array([((7 * i) % 5) - 1.5 for i in range(n)], dtype=float)
        X = [(0.5, 0.5), (0.25, 0.75), (0.3, 0.4), (0.125, 0.875), (0.77, 0.21), (coords[0][1], coords[1][1]), (coords[0][-2], 0.5), (0.999, 0.001)]
        res = {}
        for mode, npts in (('small', 10), ('large', 1000)):
            grid = GlobalTrapezoidalGrid(a=np.zeros(D), b=np.ones(D), boundary=False)
            op = DensityEstimation(data, D, grid=grid, pre_scaled_data=True)
            op.dimension_wise = True
            with impl.quiet():
                grid.set_grid(coords, levels)
            op.surpluses = {(1, 1): surplus.reshape(1, -1) if False else surplus}
            grid.get_num_points = lambda _n=npts: _n      # harness-side override on the instance: selects the implementation
            try:
                with impl.quiet(), impl.watchdog(120):
                    res[mode] = np.asarray(op.interpolate_points_component_grid(ComponentGridInfo((1, 1), 1), coords, X), dtype=float).reshape(len(X), -1)
            except Exception as ex:
                rep.violation('C17_NoException', {'stage': 'size-paths', 'mode': mode, 'exception': type(ex).__name__}, {'grid': [g1, g2], 'exception': repr(ex)},
                              what='%s-grid interpolation on grid %s raised %r' % (mode, [g1, g2], ex))
        rep.count(1, key=('size', json.dumps([g1, g2])))
        if 'small' in res and 'large' in res:
            ok = res['small'].shape == res['large'].shape and np.allclose(res['small'], res['large'], rtol=1e-10, atol=1e-12)
            rep.residual('interpolation_small_vs_large', ok)
            if not ok:
                k = int(np.argmax(np.abs(res['small'] - res['large']).sum(axis=1)))
                rep.violation('C17_SizePathsAgree', {'stage': 'size-paths', 'operation': 'interpolation'},
                              {'grid': [g1, g2], 'point': list(X[k]), 'small': res['small'][k].tolist(), 'large': res['large'][k].tolist()},
                              what='small-grid and large-grid interpolation differ on grid %s at %s: %s vs %s' % ([g1, g2], X[k], res['small'][k], res['large'][k]))
    # right-hand side: grids on both sides of the threshold against the hat definition (exact oracle of the C16 check)
    for m in ([10, 17] if tier == 'quick' else [10, 15, 17, 24]):
        c1 = [i / m for i in range(m + 1)]
        coords = [c1, c1]
        levels = [[0] + [1] * (m - 1) + [0]] * 2
        data, y = make_data('lattice', 50, rng)
        grid = GlobalTrapezoidalGrid(a=np.zeros(D), b=np.ones(D), boundary=False)
        op = DensityEstimation(data, D, grid=grid, classes=y, pre_scaled_data=True)
        op.max_levels = [0] * D
        with impl.quiet(), impl.watchdog(300):
            grid.set_grid(coords, levels)
            b = np.asarray(op.calculate_B_dimension_wise(data, coords, levels), dtype=float)
        inner = c1[1:-1]
        exp = np.zeros(len(inner) ** 2)
        h = 1.0 / m
        for idx, (px, py) in enumerate(itertools.product(inner, inner)):
            v = np.clip(1 - np.abs(data[:, 0] - px) / h, 0, None) * np.clip(1 - np.abs(data[:, 1] - py) / h, 0, None) * y
            exp[idx] = v.sum() / len(data)
        ok = b.shape == exp.shape and np.allclose(b, exp, rtol=1e-10, atol=1e-13)
        rep.count(1, key=('rhs-size', m))
        rep.residual('rhs_%s_grid' % ('large' if (m - 1) ** 2 >= 200 else 'small'), ok)
        if not ok:
            rep.violation('C17_SizePathsAgree', {'stage': 'size-paths', 'operation': 'rhs', 'large': (m - 1) ** 2 >= 200}, {'m': m, 'max_difference': float(np.max(np.abs(b - exp))) if b.shape == exp.shape else None},
                          what='right-hand side on the %dx%d grid (%s implementation) differs from the sample means' % (m - 1, m - 1, 'large' if (m - 1) ** 2 >= 200 else 'small'))


def uniform_rhs_paths(rep, tier, rng, clause='C17_SizePathsAgree', lvs=None):
    """right-hand side of the level-vector based (uniform grid) variant: component grids below and above the 200-point threshold use different
    implementations; both are compared with the sample means of the hats computed from the hat definition, on data that mixes samples exactly on
    grid lines (dyadic coordinates, also on lines of the finest grid) with generic samples"""
    from sparseSpACE.GridOperation import DensityEstimation
    from sparseSpACE.Grid import TrapezoidalGrid
    D = 2
    lvs = lvs or ([(2, 2), (3, 3), (4, 4), (5, 3), (3, 5)] + ([(4, 5), (6, 2), (1, 8)] if tier == 'thorough' else []))
    for lv in lvs:
        for kind in ('lattice', 'mixed'):
            for with_classes in (False, True):
                r = np.random.RandomState(rng.randint(0, 10 ** 6))
                n = 40
                if kind == 'lattice':
                    data = r.randint(1, 32, (n, 2)) / 32.0
                else:
                    data = r.rand(n, 2) * 0.96 + 0.02
                    data[: n // 3] = r.randint(1, 32, (n // 3, 2)) / 32.0
                    data[n // 3: n // 2, 0] = r.randint(1, 16, n // 2 - n // 3) / 16.0      # one coordinate on a grid line, the other generic
                y = np.where(r.rand(n) < 0.5, 1.0, -1.0)
                try:
                    grid = TrapezoidalGrid(a=np.zeros(D), b=np.ones(D), boundary=False)
                    op = DensityEstimation(np.array(data), D, grid=grid, classes=np.array(y) if with_classes else None, pre_scaled_data=True)
                    with impl.quiet(), impl.watchdog(300):
                        grid.setCurrentArea(np.zeros(D), np.ones(D), list(lv))
                        b = np.asarray(op.calculate_B(np.array(data), list(lv)), dtype=float)
                except impl.Timeout:
                    rep.exclude('uniform right-hand side %s: timeout' % (lv,))
                    continue
                except Exception as ex:
                    rep.violation(clause.split('_')[0] + '_NoException', {'stage': 'uniform-rhs', 'exception': type(ex).__name__}, {'levelvec': lv, 'exception': repr(ex)}, what='calculate_B(%s) raised %r' % (lv, ex))
                    continue
                exp = []
                sgn = y if with_classes else np.ones(n)
                for i in range(1, 2 ** lv[0]):
                    hx = np.clip(1 - np.abs(data[:, 0] * 2 ** lv[0] - i), 0, None)
                    for j in range(1, 2 ** lv[1]):
                        exp.append(float(np.sum(hx * np.clip(1 - np.abs(data[:, 1] * 2 ** lv[1] - j), 0, None) * sgn) / n))
                exp = np.array(exp)
                large = len(exp) >= 200
                ok = b.shape == exp.shape and np.allclose(b, exp, rtol=1e-10, atol=1e-13)
                rep.count(1, key=('uniform-rhs', lv, kind, with_classes))
                rep.residual('uniform_rhs_%s_grid' % ('large' if large else 'small'), ok)
                if not ok:
                    rep.violation(clause, {'stage': 'size-paths', 'operation': 'uniform-rhs', 'large': large},
                                  {'levelvec': lv, 'data': kind, 'classes': with_classes, 'max_difference': float(np.max(np.abs(b - exp))) if b.shape == exp.shape else None},
                                  what='right-hand side of the level-%s grid (%d points, %s implementation, %s data) differs from the sample means of the hats' % (lv, len(exp), 'large' if large else 'small', kind))


def run(tier, seed):
    rep = Report(PROP, tier, seed, 'model_checking')
    rng = random.Random(seed)
    cfg = ('SPECIFICATION Spec\nCONSTANTS LAT = %d\n GRIDS <- %s\n DATASETS <- MCData1\n MAXD = 2\n MAXPTS = 100000\nINVARIANT C17_KeyDeterminesValue\nINVARIANT C16_Symmetric\nCHECK_DEADLOCK FALSE\n'
           % (LAT, 'MCGrids' if tier == 'quick' else 'MCGridsBig'))
    r, g = tlc.run('MC_HatSystems', cfg, 'c17', dump=True, timeout=3000)
    rep.tlc('HatSystems (cache keys) ' + tier, r)
    if r.violated:
        raise tlc.TLCError('HatSystems.tla violates %s' % r.violated)
    states = [g.states[k] for k in sorted(g.states)]
    key_table(rep, states)
    rep.cov['spec_states_tested_on_impl'] = len(states)
    size_paths(rep, tier, rng)
    uniform_rhs_paths(rep, tier, rng)
    two_run(rep, tier, rng)
    rep.cov['rule'] = ('(A) every pair of hats of every grid state of HatSystems.tla: library cache key vs exact entry, global functional check; (B) reuse on/off '
                       'adaptive runs per (data set, lambda, lumping, classes, budget); (C) forced small/large implementations on the same grids; distinct by case')
    rep.assumptions += ['TLC/SANY', 'two-run agreement tolerance 1e-7 relative (linear solves)', 'implementation branch selected by overriding grid.get_num_points on the instance (harness side)']
    return rep.finish()


def replay(path, seed):
    print('re-run bin/check C17: the failing case is recorded in %s' % path)
    return run('quick', seed)
