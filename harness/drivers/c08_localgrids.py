"""C08 - local tensor quadrature grids honour their exactness and point contracts.

spec/LocalGrid.tla enumerates (level, dyadic sub-interval, boundary flag) and carries the expected 1-D trapezoidal points
and weights; TLC checks containment, count, weight sum and linear exactness on every enumerated state.  One implementation
test per tensor combination of states (D = 1, 2; 3 thorough) on TrapezoidalGrid, compared exactly.  Residual clauses
(harness, float) over the same enumeration: counts, containment, weight sums and polynomial exactness up to the nominal
degree for Simpson, Clenshaw-Curtis, Leja, Gauss-Legendre, Lagrange and B-spline grids."""
import itertools
import json
import random

import numpy as np

from harness.engine import impl, tlc
from harness.engine.report import Report

PROP = 'C08'
LAT = 64
GLOBAL = [(0.0, 1.0), (-3.0, 5.0)]


def mc(rep, tier):
    cfg = ('SPECIFICATION Spec\nCONSTANTS LAT = %d\n MAXLEVEL = %d\n MAXDEPTH = %d\nINVARIANT C08_Inside\nINVARIANT C08_Count\nINVARIANT C08_SumIsVolume\n'
           'INVARIANT C08_LinearExact\nCHECK_DEADLOCK FALSE\n' % (LAT, 3 if tier == 'quick' else 4, 2 if tier == 'quick' else 3))
    r, g = tlc.run('LocalGrid', cfg, 'c08', dump=True, timeout=1200)
    rep.tlc('LocalGrid ' + tier, r)
    if r.violated:
        raise tlc.TLCError('LocalGrid.tla violates %s' % r.violated)
    return [g.states[k] for k in sorted(g.states)]


def real(x, ab):
    return ab[0] + (ab[1] - ab[0]) * x / LAT


_SHARED = {}
_OWNED = {}


def shared(key, mk):
    """one grid object per (family, global box) reused along the whole sequence of sub-boxes, as the adaptive strategies do"""
    if key not in _SHARED:
        _SHARED[key] = mk()
    return _SHARED[key]


def test_trapezoid(rep, combo, glob, reuse=True):
    from sparseSpACE.Grid import TrapezoidalGrid
    D = len(combo)
    bnd = bool(combo[0]['bnd'])
    a = np.array([g[0] for g in glob])
    b = np.array([g[1] for g in glob])
    start = np.array([real(st['s'], glob[d]) for d, st in enumerate(combo)])
    end = np.array([real(st['e'], glob[d]) for d, st in enumerate(combo)])
    lv = [int(st['lvl']) for st in combo]
    case = {'levelvec': lv, 'start': list(start), 'end': list(end), 'a': list(a), 'b': list(b), 'boundary': bnd}
    touches = [int(st['s'] == 0) + int(st['e'] == LAT) for st in combo]
    # the one-point midpoint rule of the library: boundary off, local level 0, exactly one global boundary touched
    midpoint_rule = (not bnd) and any(lv[d] == 0 and touches[d] == 1 for d in range(D))
    sig = {'family': 'trapezoid', 'boundary': bnd, 'one_point_midpoint_rule': midpoint_rule}

    def fail(clause, what, **kw):
        rep.violation(clause, dict(sig), dict(case, **kw), what='trapezoid %s: %s' % (case, what))
    try:
        grid = shared(('trapezoid', bnd, tuple(a), tuple(b)), lambda: TrapezoidalGrid(a=a, b=b, boundary=bnd)) if reuse else TrapezoidalGrid(a=a, b=b, boundary=bnd)
        with impl.quiet():
            if reuse:
                # the arrays describing the sub-box are kept by the caller and rewritten in place for every sub-box (as the adaptive strategies
                # do with the start / end arrays of their area objects)
                S, E, L = _OWNED.setdefault(('trapezoid', bnd, tuple(a), tuple(b)), (np.zeros(D), np.zeros(D), [0] * D))
                S[:] = start
                E[:] = end
                L[:] = lv
                grid.setCurrentArea(S, E, L)
            else:
                grid.setCurrentArea(start, end, lv)
            pts, w = grid.get_points_and_weights()
            n_ann = [int(x) for x in grid.levelToNumPoints(lv)]
    except Exception as ex:
        fail('C08_NoException', 'raised %r' % ex, exception=repr(ex))
        return
    exp_pts = list(itertools.product(*[[real(x, glob[d]) for x in st['pts']] for d, st in enumerate(combo)]))
    exp_w = [float(np.prod(v)) for v in itertools.product(*[[x * (glob[d][1] - glob[d][0]) / LAT / 2 for x in st['w2']] for d, st in enumerate(combo)])]
    pts = [tuple(float(x) for x in p) for p in pts]
    w = [float(x) for x in (w if len(pts) else [])]
    rep.count(1, key=json.dumps(case) + str(reuse))
    if int(np.prod(n_ann)) != len(pts):
        fail('C08_CountMatches', 'announces %s points, returns %d' % (n_ann, len(pts)))
    if not all(all(start[d] - 1e-12 <= p[d] <= end[d] + 1e-12 for d in range(D)) for p in pts):
        fail('C08_InsideBox', 'a point lies outside the sub-box')
    got = sorted(zip(pts, w))
    exp = sorted(zip(exp_pts, exp_w))
    same = len(got) == len(exp) and all(all(abs(x - y) <= 1e-12 * max(1.0, abs(y)) for x, y in zip(g[0], e[0])) and abs(g[1] - e[1]) <= 1e-13 * max(1.0, abs(e[1]))
                                       for g, e in zip(got, exp))
    if not same:
        fail('C08_BoundaryOffDropsExactlyBoundaryPoints' if not bnd else 'C08_TrapezoidPointsAndWeights',
             'points/weights differ from the contract (got %d points %s..., expected %d points %s...)' % (len(got), got[:3], len(exp), exp[:3]),
             got=got[:12], expected=exp[:12])


def test_trapezoid_toggle(rep, st_on, st_off, glob):
    """boundary points switched off and on again on ONE grid object for the same sub-box (set_boundaries): every read-out must be the
    contract of the flag that is set at that moment"""
    from sparseSpACE.Grid import TrapezoidalGrid
    a, b = np.array([glob[0]]), np.array([glob[1]])
    start, end = np.array([real(st_on['s'], glob)]), np.array([real(st_on['e'], glob)])
    lv = [int(st_on['lvl'])]
    grid = TrapezoidalGrid(a=a, b=b, boundary=True)
    seq = [(True, st_on), (False, st_off), (True, st_on), (False, st_off)]
    for i, (flag, st) in enumerate(seq):
        case = {'levelvec': lv, 'start': list(start), 'end': list(end), 'a': list(a), 'b': list(b), 'boundary': flag, 'sequence': 'set_boundaries toggled %d times on one object' % i}
        midpoint_rule = (not flag) and lv[0] == 0 and (int(st['s'] == 0) + int(st['e'] == LAT)) == 1
        try:
            with impl.quiet():
                grid.set_boundaries([flag])
                grid.boundary = flag
                grid.setCurrentArea(start, end, lv)
                pts, w = grid.get_points_and_weights()
                n_ann = [int(x) for x in grid.levelToNumPoints(lv)]
        except Exception as ex:
            rep.violation('C08_NoException', {'family': 'trapezoid', 'boundary': flag, 'toggled': True}, dict(case, exception=repr(ex)), what='trapezoid %s raised %r' % (case, ex))
            return
        exp = sorted(zip([real(x, glob) for x in st['pts']], [x * (glob[1] - glob[0]) / LAT / 2 for x in st['w2']]))
        got = sorted(zip([float(p[0]) for p in pts], [float(x) for x in (w if len(pts) else [])]))
        rep.count(1, key=json.dumps(case))
        same = len(got) == len(exp) and all(abs(g[0] - e[0]) <= 1e-12 * max(1.0, abs(e[0])) and abs(g[1] - e[1]) <= 1e-13 * max(1.0, abs(e[1])) for g, e in zip(got, exp))
        if int(np.prod(n_ann)) != len(pts):
            rep.violation('C08_CountMatches', {'family': 'trapezoid', 'boundary': flag, 'toggled': True, 'one_point_midpoint_rule': midpoint_rule}, dict(case, announced=n_ann, returned=len(pts)),
                          what='trapezoid %s: announces %s points, returns %d' % (case, n_ann, len(pts)))
        elif not same:
            rep.violation('C08_BoundaryOffDropsExactlyBoundaryPoints' if not flag else 'C08_TrapezoidPointsAndWeights',
                          {'family': 'trapezoid', 'boundary': flag, 'toggled': True, 'one_point_midpoint_rule': midpoint_rule}, dict(case, got=got[:12], expected=exp[:12]),
                          what='trapezoid %s: points/weights differ from the contract of the flag now set (got %s, expected %s)' % (case, got[:4], exp[:4]))


def polyfun(D, degs):
    from sparseSpACE.Function import Function

    class P(Function):
        def output_length(self):
            return len(degs)

        def eval(self, x):
            return np.array([float(np.prod([x[d] ** k[d] for d in range(D)])) for k in degs])
    return P()


def test_family(rep, name, mk, degree_of, lv, start, end, a, b, reuse=True):
    D = len(lv)
    case = {'family': name, 'levelvec': lv, 'start': list(start), 'end': list(end)}
    sig = {'family': name, 'reused_grid_object': reuse}

    def fail(clause, what, **kw):
        rep.violation(clause, dict(sig, **kw.pop('sig', {})), dict(case, **kw), what='%s level %s on %s-%s (grid object reused: %s): %s' % (name, lv, list(start), list(end), reuse, what))
    try:
        grid = shared((name, tuple(a), tuple(b)), lambda: mk(a, b)) if reuse else mk(a, b)
        with impl.quiet(), impl.watchdog(120):
            grid.setCurrentArea(np.array(start), np.array(end), lv)
            n_ann = [int(x) for x in grid.levelToNumPoints(lv)]
            if min(n_ann) == 0:
                # a level / box for which the family has no point at all (level 0 of the whole domain without boundary points): nothing to integrate with
                rep.exclude('%s: no points on level 0 of the whole domain without boundary points' % name)
                return
            pts = [tuple(float(x) for x in p) for p in grid.getPoints()]
            degs_1d = [degree_of(n) for n in n_ann]
            degs = [k for k in itertools.product(*[range(0, dg + 1) for dg in degs_1d]) if sum(1 for v in k if v > 0) <= 1 or D == 1][:12]
            got = np.atleast_1d(np.asarray(grid.integrate(polyfun(D, degs), lv, np.array(start), np.array(end)), dtype=float)).reshape(-1)
            if got.size == 1 and len(degs) > 1:
                got = np.full(len(degs), got[0])      # a scalar where one value per component is due: judged component by component below
    except impl.Timeout:
        rep.exclude('%s level %s: timeout' % (name, lv))
        return
    except Exception as ex:
        rep.residual('family_' + name, False)
        fail('C08_NoException', 'raised %r' % ex, exception=repr(ex), sig={'exception': type(ex).__name__})
        return
    rep.count(1, key=json.dumps(case) + str(reuse))
    ok = True
    if int(np.prod(n_ann)) != len(pts):
        ok = False
        fail('C08_CountMatches', 'announces %s points, returns %d' % (n_ann, len(pts)))
    if not all(all(start[d] - 1e-10 <= p[d] <= end[d] + 1e-10 for d in range(D)) for p in pts):
        ok = False
        fail('C08_InsideBox', 'a point lies outside the sub-box')
    for k, g in zip(degs, got):
        ex = float(np.prod([(end[d] ** (k[d] + 1) - start[d] ** (k[d] + 1)) / (k[d] + 1) for d in range(D)]))
        scale = float(np.prod([max(abs(start[d]), abs(end[d])) ** k[d] * (end[d] - start[d]) for d in range(D)]))      # size of the exact value: the comparison is relative
        tol = 1e-6 if name == 'leja' else 1e-9
        if abs(g - ex) > tol * scale:
            ok = False
            fail('C08_PolynomialExactness' if sum(k) > 0 else 'C08_WeightsSumToVolume', 'monomial degrees %s integrates to %r, exact %r (points per dimension %s)' % (list(k), g, ex, n_ann),
                 sig={'degree': int(max(k)), 'points_1d': int(min(n_ann))})
            break
    rep.residual('family_' + name, ok)


def families():
    import sparseSpACE.Grid as G
    return [('simpson', lambda a, b: G.SimpsonGrid(a=a, b=b, boundary=True), lambda n: 3 if n >= 3 else 1),
            ('clenshaw-curtis', lambda a, b: G.ClenshawCurtisGrid(a=a, b=b, boundary=True), lambda n: n - 1),
            ('leja', lambda a, b: G.LejaGrid(a=a, b=b, boundary=True), lambda n: n - 1),
            ('gauss-legendre', lambda a, b: G.GaussLegendreGrid(a=a, b=b), lambda n: min(2 * n - 1, 9)),
            ('lagrange-p2', lambda a, b: G.LagrangeGrid(a=a, b=b, boundary=True, p=2), lambda n: min(2, n - 1)),
            ('lagrange-p3', lambda a, b: G.LagrangeGrid(a=a, b=b, boundary=True, p=3), lambda n: min(3, n - 1)),
            ('bspline-p3', lambda a, b: G.BSplineGrid(a=a, b=b, boundary=True, p=3), lambda n: min(3, n - 1)),
            ('bspline-p1', lambda a, b: G.BSplineGrid(a=a, b=b, boundary=True, p=1), lambda n: min(1, n - 1)),
            # boundary points off with the modified (linearly extrapolating) basis: still exact for linear functions
            ('trapezoid/modified-basis', lambda a, b: G.TrapezoidalGrid(a=a, b=b, boundary=False, modified_basis=True), lambda n: 1),
            # tensor product of different one-dimensional families
            ('mixed(trapezoid x clenshaw-curtis)', lambda a, b: G.MixedGrid(a=a, b=b, grids=[(G.TrapezoidalGrid1D if d % 2 == 0 else G.ClenshawCurtisGrid1D)(a=a[d], b=b[d], boundary=True)
                                                                                      for d in range(len(a))]), lambda n: 1),
            # the point-by-point integrator the grids offer as integrator='old'
            ('trapezoid/old-integrator', lambda a, b: G.TrapezoidalGrid(a=a, b=b, boundary=True, integrator='old'), lambda n: 1),
            ('simpson/old-integrator', lambda a, b: G.SimpsonGrid(a=a, b=b, boundary=True, integrator='old'), lambda n: 3 if n >= 3 else 1),
            ('clenshaw-curtis/old-integrator', lambda a, b: G.ClenshawCurtisGrid(a=a, b=b, boundary=True, integrator='old'), lambda n: n - 1)]


def run(tier, seed):
    rep = Report(PROP, tier, seed, 'model_checking')
    rng = random.Random(seed)
    states = mc(rep, tier)
    byb = {True: [s for s in states if s['bnd']], False: [s for s in states if not s['bnd']]}
    n = 0
    for bnd in (True, False):
        for st in byb[bnd]:
            for g in GLOBAL:
                test_trapezoid(rep, [st], [g])
                test_trapezoid(rep, [st], [g], reuse=False)
                n += 2
        pairs = list(itertools.product(byb[bnd], repeat=2))
        if tier == 'quick':
            pairs = rng.sample(pairs, min(len(pairs), 500))
        for combo in pairs:
            test_trapezoid(rep, list(combo), [GLOBAL[0], GLOBAL[1]])
            n += 1
        triples = [tuple(rng.choice(byb[bnd]) for _ in range(3)) for _ in range(60 if tier == 'quick' else 600)]
        for combo in triples:
            test_trapezoid(rep, list(combo), [GLOBAL[0], GLOBAL[1], GLOBAL[0]])
            n += 1
    off = {(int(s['lvl']), int(s['s']), int(s['e'])): s for s in byb[False]}
    for st in byb[True]:
        k = (int(st['lvl']), int(st['s']), int(st['e']))
        if k in off:
            for g in GLOBAL:
                test_trapezoid_toggle(rep, st, off[k], g)
                n += 1
    rep.cov['spec_states_tested_on_impl'] = n
    # residual: other families over the same enumeration of (level, sub-box), boundary on
    for name, mk, degree_of in families():
        sts = [s for s in byb[True] if (name != 'leja' or s['lvl'] <= 3)]
        for st in sts:
            for g in GLOBAL[:1] if name == 'leja' else GLOBAL:
                test_family(rep, name, mk, degree_of, [int(st['lvl'])], [real(st['s'], g)], [real(st['e'], g)], np.array([g[0]]), np.array([g[1]]))
                if rng.random() < 0.3:
                    test_family(rep, name, mk, degree_of, [int(st['lvl'])], [real(st['s'], g)], [real(st['e'], g)], np.array([g[0]]), np.array([g[1]]), reuse=False)
        pairs = [tuple(rng.choice(sts) for _ in range(2)) for _ in range(25 if tier == 'quick' else 200)]
        for c2 in pairs:
            gl = [GLOBAL[0], GLOBAL[1]]
            test_family(rep, name, mk, degree_of, [int(s['lvl']) for s in c2], [real(s['s'], gl[d]) for d, s in enumerate(c2)],
                        [real(s['e'], gl[d]) for d, s in enumerate(c2)], np.array([x[0] for x in gl]), np.array([x[1] for x in gl]))
        # three dimensions (tensor weights become small) and a tiny global box
        if name != 'leja':
            for _ in range(6 if tier == 'quick' else 40):
                c3 = tuple(rng.choice(sts) for _ in range(3))
                gl = [GLOBAL[0], GLOBAL[1], GLOBAL[0]]
                test_family(rep, name, mk, degree_of, [int(s['lvl']) for s in c3], [real(s['s'], gl[d]) for d, s in enumerate(c3)],
                            [real(s['e'], gl[d]) for d, s in enumerate(c3)], np.array([x[0] for x in gl]), np.array([x[1] for x in gl]), reuse=False)
            full = [s for s in sts if int(s['s']) == 0 and int(s['e']) == LAT and int(s['lvl']) == max(int(x['lvl']) for x in sts)][:1]
            for s in full:
                gl = [GLOBAL[0]] * 3
                test_family(rep, name, mk, degree_of, [int(s['lvl'])] * 3, [0.0] * 3, [1.0] * 3, np.zeros(3), np.ones(3), reuse=False)
            tiny = (0.001, 0.002)
            for s in sts[:: max(1, len(sts) // 6)]:
                for D in (1, 2, 3):
                    test_family(rep, name, mk, degree_of, [int(s['lvl'])] * D, [real(s['s'], tiny)] * D, [real(s['e'], tiny)] * D, np.full(D, tiny[0]), np.full(D, tiny[1]), reuse=False)
    rep.cov['exhaustive'] = True
    rep.sample({'example_state': {k: states[5][k] for k in ('lvl', 's', 'e', 'bnd', 'pts', 'w2')}})
    rep.cov['rule'] = ('every state of LocalGrid.tla (level <= %d, dyadic sub-intervals of depth <= %d, boundary flag) in 1-D, tensor pairs (quick: seeded sample of 500) and sampled '
                       'triples on TrapezoidalGrid; the same enumeration for the other grid families (residual moment identities); distinct by (family, level vector, box, flags)'
                       % ((3, 2) if tier == 'quick' else (4, 3)))
    rep.assumptions += ['TLC/SANY', 'float comparison 1e-12/1e-13 of trapezoidal points/weights, 1e-9 (Leja 1e-6) for moment identities', 'Gauss-Legendre degree checked up to 9']
    return rep.finish()


def replay(path, seed):
    print('re-run bin/check C08: the failing case is recorded in %s' % path)
    return run('quick', seed)
