"""Data for MANIFEST.json (bin/mkmanifest)."""
HOOK_COMMITS = []
NOTES = ('All checks: bin/check <id> --tier quick|thorough. Exit 0 = held, 1 = VIOLATION line(s), 2 = machinery failure (no verdict). '
         'VERIF_REPO (default /repo) selects the tree under test. DRIFT lines report implementation/I-spec differences that do not violate a property clause.')
NOT_APPLICABLE = {}
CHECKS = {
 'C01': dict(level='model_checking',
   technique='TLA+ spec CombiScheme.tla exhaustively model-checked by TLC; every edge of the state graph replayed on the real CombiScheme; all recorded executions (edge replays, random request sequences, DimAdaptiveCombi runs) validated by TLC against CombiSchemeTrace.tla',
   text='TLC visits every sequence of update requests (refinable or not, in or outside the set) in bounded level boxes for D=1..4(5) and checks all clauses of the property in every state; the implementation is bound by replaying every edge of that graph and by TLC evaluating the same clauses on every state recorded from the real code, including longer random histories and real adaptive runs.',
   note='Trusted: TLC/SANY, the projection (active_index_set, old_index_set, getCombiScheme), bounded boxes; unbounded D/levels are not covered.'),
}
