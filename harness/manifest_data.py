"""Data for MANIFEST.json (bin/mkmanifest)."""
HOOK_COMMITS = []
NOTES = ('All checks: bin/check <id> --tier quick|thorough. Exit 0 = held, 1 = VIOLATION line(s), 2 = machinery failure (no verdict). '
         'VERIF_REPO (default /repo) selects the tree under test. DRIFT lines report implementation/I-spec differences that do not violate a property clause.')
NOT_APPLICABLE = {}
CHECKS = {
 'C01': dict(level='model_checking',
   technique='TLA+ spec CombiScheme.tla exhaustively model-checked by TLC; every edge of the state graph replayed on the real CombiScheme; all recorded executions (edge replays, random request sequences, DimAdaptiveCombi runs) validated by TLC against CombiSchemeTrace.tla',
   text='TLC visits every sequence of update requests (refinable or not, in or outside the set) in bounded level boxes for D=1..4(5) and checks all clauses of the property in every state; the implementation is bound by replaying every edge of that graph and by TLC evaluating the same clauses on every state recorded from the real code, including longer random histories and real adaptive runs.',
   note='Trusted: TLC/SANY, the projection (active_index_set, old_index_set, getCombiScheme), bounded boxes; unbounded D/levels are not covered.'),
 'C03': dict(level='model_checking',
   technique='TLA+ I-spec DimWise.tla (split, rebalance, raise_lmax, point selection for versions 2,3,6,7,8) model-checked by TLC; every (state, selection) edge replayed on the real strategy with scripted benefits; all executions validated by TLC against DimWiseTrace.tla (nesting, end points, dependence on (dimension, level) only, coefficient sum 1 at every combined-grid point, interpolation identity)',
   text='TLC explores every bounded refinement history (single, pair and uniform selections) of the implementation-shaped model and checks the C03 clauses in every state; the real strategy is driven along those edges and along longer random histories (D=2,3, all coarsening versions, rebalancing and boundary on/off) and TLC evaluates every clause on every recorded state.',
   note='Trusted: TLC/SANY, the projection in dimwise_common.py, numeric evaluation of the interpolation identity (tolerance 1e-8). Bounded depth (2-3 exhaustive, 6 random), lattice 2^12.'),
 'C04': dict(level='model_checking',
   technique='discrete criterion InitialSpaceExact model-checked by TLC on DimWise.tla; numeric exactness of every hat of the initial space (integral and interpolation) measured on the real strategy after every step and required by DimWiseTrace.tla; per-hat equivalence criterion <=> numeric exactness checked; counterfactual replay classifies known findings',
   text='The specification predicts exactly which hats stay exact (checked hat by hat against the real numerics on every recorded state); TLC proves the criterion invariant for rebalancing off / versions 6-8 on bounded histories and the real code is measured on the same histories and on random deeper ones. Losses caused by rebalancing or legacy versions 2/3 are known findings, identified by a counterfactual replay of the same decision history.',
   note='Trusted: TLC/SANY, harness numerics (1e-10 relative on integrals, 1e-9 on interpolated values on a lattice twice as fine as the initial grid). Extend-split and cell strategies are covered by the C07 machinery when built; modified basis is excluded in the pinned environment (np.float).'),
 'C06': dict(level='model_checking',
   technique='TLA+ I-spec DimWise.tla incl. transcription of rebalance_interval (assertions modelled as an abort state) model-checked by TLC; edge replay and random benefit scripts (ties, zeros, margins 0..1, safety factors) on the real strategy; tiling/level/binary-tree/coarsening/selection clauses evaluated by TLC on every recorded state (DimWiseTrace.tla)',
   text='Every bounded history of the model satisfies the well-formedness invariants and never trips an assertion of the rebalancing code; the implementation is replayed along the same edges (state compared completely, including cursors) and every recorded state of scripted runs is checked by TLC against the property clauses, including that exactly the intervals reaching margin*max benefit were split.',
   note='Trusted: TLC/SANY, projection of interval lists and levels, integer benefit scripts (float/rational agreement at the margin enforced by construction).'),
}
