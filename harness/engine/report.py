"""Verdict bookkeeping: VIOLATION / KNOWN-FINDING / DRIFT lines, replay files, evidence files."""
import hashlib
import json
import os
import sys
import time

VERIF = os.path.dirname(os.path.dirname(os.path.dirname(os.path.abspath(__file__))))


def _load_findings():
    p = os.path.join(VERIF, 'known_findings.json')
    if not os.path.exists(p):
        return []
    with open(p) as f:
        return json.load(f).get('findings', [])


def _match(sig, pattern):
    """pattern matches sig when every key of pattern is present in sig with an equal value
    (a list in the pattern means 'one of')."""
    for k, v in pattern.items():
        if k not in sig:
            return False
        if isinstance(v, list) and not isinstance(sig[k], list):
            if sig[k] not in v:      # a list in the pattern means 'one of'
                return False
        elif sig[k] != v:
            return False
    return True


class Report:
    def __init__(self, pid, tier, seed, level):
        self.pid, self.tier, self.seed, self.level = pid, tier, seed, level
        self.t0 = time.time()
        self.cov = {'states': 0, 'transitions': 0, 'traces_validated_against_impl': 0, 'evaluations': 0,
                    'distinct_nontrivial': 0, 'samples': [], 'rule': '', 'tlc_runs': [], 'drift': [],
                    'known_findings_reproduced': {}, 'excluded_configs': [], 'residual_clauses': {}}
        self.assumptions = []
        self.violations = 0
        self.known = {}
        self.findings = [f for f in _load_findings() if f.get('property') == pid]
        self._seen_viol = set()
        self._distinct = set()

    # ---- coverage helpers
    def tlc(self, name, r, **kw):
        self.cov['states'] += r.distinct
        self.cov['transitions'] += r.generated
        d = {'run': name, 'distinct_states': r.distinct, 'states_generated': r.generated, 'depth': r.depth,
             'wall_s': round(r.wall, 1), 'actions': {k: v[1] for k, v in r.action_counts.items()}}
        d.update(kw)
        self.cov['tlc_runs'].append(d)

    def count(self, n=1, key=None, nontrivial=True):
        self.cov['evaluations'] += n
        if key is not None and nontrivial:
            self._distinct.add(key if isinstance(key, (str, int)) else hashlib.sha1(repr(key).encode()).hexdigest())

    def sample(self, obj, limit=6):
        if len(self.cov['samples']) < limit:
            self.cov['samples'].append(obj)

    def residual(self, name, ok=True, n=1):
        d = self.cov['residual_clauses'].setdefault(name, {'checked': 0, 'failed': 0})
        d['checked'] += n
        if not ok:
            d['failed'] += n

    def exclude(self, what):
        if what not in self.cov['excluded_configs']:
            self.cov['excluded_configs'].append(what)

    # ---- verdicts
    def drift(self, what, detail=None):
        if len(self.cov['drift']) < 50:
            self.cov['drift'].append({'what': what, 'detail': detail})
        print('DRIFT property=%s %s' % (self.pid, what), file=sys.__stdout__, flush=True)

    def violation(self, clause, sig, replay, what=None):
        """A property clause failed on an execution of the real code.
        sig: dict describing the case (used for known-finding matching); replay: json-able object."""
        sig = dict(sig)
        sig['clause'] = clause
        for f in self.findings:
            if _match(sig, f['signature']):
                k = f['id']
                self.known[k] = self.known.get(k, 0) + 1
                if self.known[k] == 1:
                    print('KNOWN-FINDING: property=%s %s [%s]' % (self.pid, f['what'], k), file=sys.__stdout__, flush=True)
                return 'known'
        key = hashlib.sha1(json.dumps(sig, sort_keys=True, default=str).encode()).hexdigest()[:12]
        if key in self._seen_viol:
            return 'dup'
        self._seen_viol.add(key)
        self.violations += 1
        d = os.path.join(VERIF, 'replays', self.pid)
        os.makedirs(d, exist_ok=True)
        path = os.path.join(d, '%s_%s.json' % (clause, key))
        with open(path, 'w') as f:
            json.dump({'property': self.pid, 'clause': clause, 'signature': sig, 'what': what, 'replay': replay},
                      f, indent=1, default=str)
        if self.violations <= 25:
            # written to the real stdout: drivers may report from inside a block that silences the library's prints
            print('VIOLATION property=%s replay=%s clause=%s %s' % (self.pid, path, clause, what or ''), file=sys.__stdout__, flush=True)
        return 'violation'

    def finish(self):
        self.cov['distinct_nontrivial'] = len(self._distinct)
        self.cov['known_findings_reproduced'] = self.known
        try:
            from harness.engine import tlc as _tlc
            if _tlc.SELFTESTS:
                self.cov['binding_selftest'] = _tlc.SELFTESTS
        except Exception:
            pass
        ev = {'property_id': self.pid, 'tier': self.tier, 'seed': self.seed, 'level': self.level,
              'coverage': self.cov, 'assumptions': self.assumptions, 'wall_s': round(time.time() - self.t0, 1),
              'violations': self.violations}
        os.makedirs(os.path.join(VERIF, 'evidence'), exist_ok=True)
        with open(os.path.join(VERIF, 'evidence', self.pid + '.json'), 'w') as f:
            json.dump(ev, f, indent=1, default=str)
        print('%s %s: states=%d transitions=%d impl_traces=%d evaluations=%d distinct=%d violations=%d known=%s wall=%.0fs' % (
            self.pid, self.tier, self.cov['states'], self.cov['transitions'], self.cov['traces_validated_against_impl'],
            self.cov['evaluations'], self.cov['distinct_nontrivial'], self.violations, dict(self.known), time.time() - self.t0))
        sys.stdout.flush()
        return 1 if self.violations else 0
