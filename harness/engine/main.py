"""Entry point shared by all drivers: argument handling, exit-code policy."""
import argparse
import importlib
import os
import sys
import traceback


def main(pid, modname, argv):
    ap = argparse.ArgumentParser()
    ap.add_argument('--tier', default=os.environ.get('VERIF_TIER', 'quick'), choices=['quick', 'thorough'])
    ap.add_argument('--replay', default=None)
    a = ap.parse_args(argv)
    seed = int(os.environ.get('VERIF_SEED', '20260924'))
    try:
        from harness.engine import impl
        impl.check_import()
        mod = importlib.import_module('harness.drivers.' + modname)
        if a.replay:
            rc = mod.replay(a.replay, seed)
            if rc == 0 and os.environ.get('VERIF_REPLAY_FALLBACK', '1') != '0':
                # the recorded case alone did not fail: cases that depend on what happened before them on the same objects (re-used objects,
                # continued runs, interleaved calls) only re-appear along the driver's whole sequence - re-run the quick tier
                print('replay: the recorded case alone holds; re-running the quick tier (history-dependent cases)')
                sys.stdout.flush()
                rc = mod.run('quick', seed)
        else:
            rc = mod.run(a.tier, seed)
    except SystemExit:
        raise
    except BaseException:
        traceback.print_exc()
        print('ERROR property=%s machinery failure (no verdict)' % pid)
        sys.stdout.flush()
        os._exit(2)
    sys.stdout.flush()
    os._exit(rc)
