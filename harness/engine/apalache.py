"""Apalache runs (bounded symbolic model checking of typed TLA+ modules under spec/apalache/).
Used for one-step inductive-invariant checks: `--init=IndInit --inv=IndInv --length=1`.
A run is a machinery result only (it speaks about the specification, never directly about the code); the
modules it checks carry the same update rule the TLC edge replay binds to the implementation."""
import os
import re
import shutil
import subprocess
import time

from harness.engine.tlc import TLCError, workdir

VERIF = os.path.dirname(os.path.dirname(os.path.dirname(os.path.abspath(__file__))))
SPEC = os.path.join(VERIF, 'spec', 'apalache')


def available():
    return shutil.which('apalache-mc') is not None


def check(module, init='IndInit', inv='IndInv', length=1, subst=None, timeout=900, tag='apa'):
    """Returns dict(outcome='NoError'|'Error', wall_s=..).  subst: list of (regex, replacement) applied to the module text
    (used for the module constant N and for control mutants that must be rejected)."""
    wd = workdir(tag)
    try:
        text = open(os.path.join(SPEC, module + '.tla')).read()
        for pat, rep in (subst or []):
            text, n = re.subn(pat, rep, text, flags=re.M)
            if n == 0:
                raise TLCError('apalache: substitution %r matched nothing in %s' % (pat, module))
        with open(os.path.join(wd, module + '.tla'), 'w') as f:
            f.write(text)
        cmd = ['apalache-mc', 'check', '--init=' + init, '--inv=' + inv, '--length=%d' % length,
               '--out-dir=' + os.path.join(wd, 'out'), module + '.tla']
        t0 = time.time()
        try:
            p = subprocess.run(cmd, cwd=wd, capture_output=True, text=True, timeout=timeout)
        except subprocess.TimeoutExpired:
            raise TLCError('apalache timeout after %ds on %s' % (timeout, module))
        out = p.stdout + p.stderr
        m = re.search(r'The outcome is: (\w+)', out)
        if not m or m.group(1) not in ('NoError', 'Error'):
            raise TLCError('apalache failed on %s (rc=%d):\n%s' % (module, p.returncode, out[-2000:]))
        return {'module': module, 'init': init, 'inv': inv, 'length': length, 'outcome': m.group(1),
                'wall_s': round(time.time() - t0, 1)}
    finally:
        shutil.rmtree(wd, ignore_errors=True)
