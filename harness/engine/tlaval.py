"""Parser for TLA+ values as printed by TLC (state dumps, dot labels, PrintT).

Mapping:  <<...>> -> tuple, {...} -> frozenset, [a |-> v, ...] -> dict(str->v),
(k :> v @@ ...) -> dict(k->v), "s" -> str, TRUE/FALSE -> bool, integers -> int,
bare identifiers (model values) -> str.  A function whose domain is 1..n is printed by TLC
as a tuple, so it arrives as a tuple.
"""
import re

_tok = re.compile(r'\s*(<<|>>|\|->|:>|@@|\[|\]|\{|\}|\(|\)|,|"(?:[^"\\]|\\.)*"|-?\d+|[A-Za-z_][A-Za-z0-9_!]*)')


class TLAParseError(Exception):
    pass


def tokenize(s):
    pos, out, n = 0, [], len(s)
    while pos < n:
        m = _tok.match(s, pos)
        if not m:
            if s[pos:].strip() == '':
                break
            raise TLAParseError('bad token at %d: %r' % (pos, s[pos:pos + 40]))
        out.append(m.group(1))
        pos = m.end()
    return out


class _P:
    def __init__(self, toks):
        self.t, self.i = toks, 0

    def peek(self):
        return self.t[self.i] if self.i < len(self.t) else None

    def next(self):
        v = self.t[self.i]
        self.i += 1
        return v

    def expect(self, x):
        v = self.next()
        if v != x:
            raise TLAParseError('expected %s got %s' % (x, v))

    def value(self):
        t = self.next()
        if t == '<<':
            out = []
            if self.peek() == '>>':
                self.next()
                return ()
            while True:
                out.append(self.value())
                t2 = self.next()
                if t2 == '>>':
                    return tuple(out)
                if t2 != ',':
                    raise TLAParseError('tuple')
        if t == '{':
            out = []
            if self.peek() == '}':
                self.next()
                return frozenset()
            while True:
                out.append(self.value())
                t2 = self.next()
                if t2 == '}':
                    return frozenset(out)
                if t2 != ',':
                    raise TLAParseError('set')
        if t == '[':
            out = {}
            while True:
                k = self.next()
                self.expect('|->')
                out[k] = self.value()
                t2 = self.next()
                if t2 == ']':
                    return out
                if t2 != ',':
                    raise TLAParseError('record')
        if t == '(':
            out = {}
            while True:
                k = self.value()
                self.expect(':>')
                out[_freeze(k)] = self.value()
                t2 = self.next()
                if t2 == ')':
                    return out
                if t2 != '@@':
                    raise TLAParseError('function')
        if t == 'TRUE':
            return True
        if t == 'FALSE':
            return False
        if t[0] == '"':
            return t[1:-1].replace('\\"', '"').replace('\\\\', '\\')
        if re.fullmatch(r'-?\d+', t):
            return int(t)
        return t


def _freeze(v):
    if isinstance(v, dict):
        return tuple(sorted((k, _freeze(x)) for k, x in v.items()))
    return v


def parse(s):
    p = _P(tokenize(s))
    v = p.value()
    if p.peek() is not None:
        raise TLAParseError('trailing tokens: %r' % p.t[p.i:p.i + 5])
    return v


def parse_state(s):
    """Parse a TLC state '/\\ a = v\n/\\ b = w' into {a: v, b: w}."""
    out = {}
    parts = re.split(r'(?:^|\n)\s*/\\ ', s)
    for part in parts:
        part = part.strip()
        if not part:
            continue
        m = re.match(r'([A-Za-z_][A-Za-z0-9_]*)\s*=\s*', part)
        if not m:
            raise TLAParseError('bad conjunct %r' % part[:60])
        out[m.group(1)] = parse(part[m.end():])
    return out


def to_tla(v):
    """Python -> TLA+ text (ints, bools, str, tuple/list -> <<>>, set -> {}, dict -> record/function)."""
    if isinstance(v, bool):
        return 'TRUE' if v else 'FALSE'
    if isinstance(v, int):
        return str(v)
    if isinstance(v, str):
        return '"%s"' % v
    if isinstance(v, (tuple, list)):
        return '<<' + ', '.join(to_tla(x) for x in v) + '>>'
    if isinstance(v, (set, frozenset)):
        return '{' + ', '.join(sorted(to_tla(x) for x in v)) + '}'
    if isinstance(v, dict):
        if all(isinstance(k, str) for k in v):
            return '[' + ', '.join('%s |-> %s' % (k, to_tla(x)) for k, x in v.items()) + ']'
        return '(' + ' @@ '.join('%s :> %s' % (to_tla(k), to_tla(x)) for k, x in v.items()) + ')'
    raise TypeError(type(v))
