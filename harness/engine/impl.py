"""Access to the implementation under test: import path, stdout silencing, watchdog."""
import contextlib
import io
import os
import signal
import sys

REPO = os.environ.get('VERIF_REPO', '/repo')
if REPO not in sys.path:
    sys.path.insert(0, REPO)
os.environ.setdefault('MPLBACKEND', 'agg')
os.environ.setdefault('SPARSESPACE_VERIF', '1')
sys.dont_write_bytecode = True


class Timeout(Exception):
    pass


@contextlib.contextmanager
def quiet():
    """silence the library's prints"""
    old = sys.stdout
    sys.stdout = io.StringIO()
    try:
        yield
    finally:
        sys.stdout = old


@contextlib.contextmanager
def watchdog(seconds):
    def h(sig, frm):
        raise Timeout('implementation call exceeded %ds' % seconds)
    old = signal.signal(signal.SIGALRM, h)
    signal.alarm(int(seconds))
    try:
        yield
    finally:
        signal.alarm(0)
        signal.signal(signal.SIGALRM, old)


def check_import():
    import sparseSpACE
    p = os.path.dirname(os.path.abspath(sparseSpACE.__file__))
    if not p.startswith(os.path.abspath(REPO)):
        raise RuntimeError('sparseSpACE imported from %s, expected under %s' % (p, REPO))
    return p
