"""Thin TLC runner: model checking runs, state-graph dumps, batch trace validation."""
import json
import os
import re
import shutil
import subprocess
import time

from . import tlaval

VERIF = os.path.dirname(os.path.dirname(os.path.dirname(os.path.abspath(__file__))))
SPEC = os.path.join(VERIF, 'spec')
JAR = '/opt/veriftools/tla/tla2tools.jar'
DEPS = '/opt/veriftools/tla/CommunityModules-deps.jar'


class TLCError(Exception):
    """Machinery failure (parse error, crash, timeout) - never a property verdict."""


class TLCResult:
    def __init__(self):
        self.stdout = ''
        self.generated = 0
        self.distinct = 0
        self.depth = 0
        self.violated = []      # invariant / property names reported violated
        self.action_counts = {}  # action name -> (distinct, generated) from -coverage
        self.wall = 0.0
        self.rc = 0
        self.printed = []       # PrintT lines that parse as JSON

    def ok(self):
        return self.rc == 0 and not self.violated


def workdir(tag):
    d = os.path.join(VERIF, '.work', '%s_%d_%d' % (tag, os.getpid(), int(time.time() * 1000) % 10 ** 9))
    os.makedirs(d, exist_ok=True)
    return d


def run(module, cfg_text, tag, workers=None, dump=False, env=None, timeout=1800, coverage=True,
        extra=(), keep=False, simulate=None, depth_first=False):
    """Run TLC on spec/<module>.tla with the given cfg text.  Returns (TLCResult, graph or None)."""
    wd = workdir(tag)
    try:
        cfg = os.path.join(wd, module + '.cfg')
        with open(cfg, 'w') as f:
            f.write(cfg_text)
        # TLC resolves EXTENDS relative to the module's directory: copy specs into the work dir
        for fn in os.listdir(SPEC):
            if fn.endswith('.tla'):
                shutil.copy(os.path.join(SPEC, fn), os.path.join(wd, fn))
        cmd = ['java', '-XX:+UseParallelGC', '-Xmx6g']
        if depth_first:
            cmd.append('-Dtlc2.tool.queue.IStateQueue=StateDeque')
        cmd += ['-cp', JAR + ':' + DEPS, 'tlc2.TLC',
                '-workers', str(workers or min(16, os.cpu_count() or 4)), '-metadir', os.path.join(wd, 'meta'),
                '-noGenerateSpecTE', '-config', cfg]
        if coverage:
            cmd += ['-coverage', '1']
        dot = None
        if dump:
            dot = os.path.join(wd, 'graph.dot')
            cmd += ['-dump', 'dot,actionlabels', dot]
        if simulate:
            cmd += ['-simulate', simulate]
        cmd += list(extra)
        cmd.append(os.path.join(wd, module + '.tla'))
        e = dict(os.environ)
        e.update(env or {})
        t0 = time.time()
        try:
            p = subprocess.run(cmd, cwd=wd, env=e, capture_output=True, text=True, timeout=timeout)
        except subprocess.TimeoutExpired:
            raise TLCError('TLC timeout after %ds on %s' % (timeout, module))
        r = TLCResult()
        r.wall = time.time() - t0
        r.stdout = p.stdout + p.stderr
        r.rc = p.returncode
        m = re.findall(r'(\d+) states generated, (\d+) distinct states found', r.stdout)
        if m:
            r.generated, r.distinct = int(m[-1][0]), int(m[-1][1])
        m = re.search(r'depth of the complete state graph search is (\d+)', r.stdout)
        if m:
            r.depth = int(m.group(1))
        r.violated = re.findall(r'Error: Invariant (\S+) is violated', r.stdout)
        r.violated += re.findall(r'Error: Action property (\S+) is violated', r.stdout)
        r.violated += re.findall(r'Error: Temporal properties were violated', r.stdout)
        for nm, a, b in re.findall(r'^<(\w+) line \d+, col \d+ to line \d+, col \d+ of module \w+>: (\d+):(\d+)', r.stdout, re.M):
            o = r.action_counts.get(nm, (0, 0))
            r.action_counts[nm] = (o[0] + int(a), o[1] + int(b))
        for line in r.stdout.splitlines():
            s = line.strip()
            if s.startswith('"JSON:'):
                try:
                    r.printed.append(json.loads(tlaval.parse(s)[5:]))
                except Exception as ex:  # pragma: no cover
                    raise TLCError('cannot parse printed JSON: %s' % ex)
        fatal = re.search(r'(Error: .*(?:Parsing|semantic|evaluating|TLC threw|Unknown|configuration|Java).*)', r.stdout)
        if (r.rc not in (0, 12, 13) and not r.violated) or (fatal and not r.violated and r.rc != 0):
            raise TLCError('TLC failed on %s (rc=%d):\n%s' % (module, r.rc, r.stdout[-3000:]))
        graph = parse_dot(dot) if dump else None
        return r, graph
    finally:
        if not keep:
            shutil.rmtree(wd, ignore_errors=True)


_node = re.compile(r'^(-?\d+) \[label="((?:[^"\\]|\\.)*)"')
_edge = re.compile(r'^(-?\d+) -> (-?\d+) \[label="((?:[^"\\]|\\.)*)"')


def _unesc(s):
    return s.replace('\\n', '\n').replace('\\"', '"').replace('\\\\', '\\')


class Graph:
    def __init__(self):
        self.states = {}   # id -> dict var -> python value
        self.edges = []    # (src, dst, action label)
        self.init = []     # ids of initial states


def parse_dot(path):
    g = Graph()
    with open(path) as f:
        for line in f:
            m = _edge.match(line)
            if m:
                g.edges.append((m.group(1), m.group(2), _unesc(m.group(3))))
                continue
            m = _node.match(line)
            if m:
                sid = m.group(1)
                if sid not in g.states:
                    g.states[sid] = tlaval.parse_state(_unesc(m.group(2)))
                if 'style = filled' in line:
                    g.init.append(sid)
    return g


def parse_action(label):
    """'Update(<<1, 2>>)' -> ('Update', [ (1,2) ])"""
    m = re.match(r'^(\w+)(?:\((.*)\))?$', label, re.S)
    if not m:
        return label, []
    if m.group(2) is None:
        return m.group(1), []
    args = tlaval.parse('<<' + m.group(2) + '>>')
    return m.group(1), list(args)


# ---------------------------------------------------------------------------------------------
# batch trace validation
# ---------------------------------------------------------------------------------------------

SELFTESTS = []     # filled by validate_traces, copied into the evidence file by Report.finish


def _leaves(x, path, out):
    if isinstance(x, dict):
        for k, v in x.items():
            if not k.startswith('_') and k not in ('origin',):
                _leaves(v, path + (k,), out)
    elif isinstance(x, list):
        if x and all(isinstance(e, list) for e in x):
            out.append((path, 'droplast'))
        for i, e in enumerate(x):
            _leaves(e, path + (i,), out)
    elif isinstance(x, bool):
        out.append((path, 'flip'))
    elif isinstance(x, int):
        out.append((path, 'inc'))


def _mutate(trace, path, kind):
    import copy
    t = copy.deepcopy(trace)
    x = t
    for k in path[:-1]:
        x = x[k]
    if kind == 'flip':
        x[path[-1]] = not x[path[-1]]
    elif kind == 'inc':
        x[path[-1]] = x[path[-1]] + 1
    else:
        x[path[-1]] = x[path[-1]][:-1]
    return t


def selftest(module, traces, verdicts, tag, constants, rng, n=40, timeout=600):
    """Demonstration of the binding: single recorded fields of real traces are corrupted (boolean flipped, integer + 1, last
    element of a set-like list dropped) and the corrupted traces are judged by the same trace specification.  A mutant is
    'rejected' when its verdict differs from the verdict of the original trace.  Purely informative: the result goes into the
    evidence file (per field: rejected / tried) and never changes the exit code."""
    cands = [i for i, t in enumerate(traces) if t.get('events')]
    if not cands:
        return None
    muts = []
    for _ in range(n):
        i = rng.choice(cands)
        leaves = []
        _leaves(traces[i], (), leaves)
        if not leaves:
            continue
        path, kind = rng.choice(leaves)
        muts.append((i, path, kind, _mutate(traces[i], path, kind)))
    res = {'module': module, 'mutants': 0, 'rejected': 0, 'unevaluable': 0, 'by_field': {}}

    def judge(part):
        """list of verdicts (None = the corrupted value made the specification un-evaluable) for the mutants in part"""
        wd = workdir(tag + '_st')
        try:
            tf = os.path.join(wd, 'traces.json')
            with open(tf, 'w') as f:
                json.dump([m[3] for m in part], f)
            cfg = 'SPECIFICATION Spec\nPOSTCONDITION Post\nCHECK_DEADLOCK FALSE\n' + constants
            try:
                r, _ = run(module, cfg, tag + '_stv', workers=1, env={'TRACE_FILE': tf}, timeout=timeout, coverage=False)
                v = r.printed[-1] if r.printed else None
            except TLCError:
                v = None
        finally:
            shutil.rmtree(wd, ignore_errors=True)
        if v is not None and len(v) == len(part):
            return v
        if len(part) == 1:
            return [None]
        h = len(part) // 2
        return judge(part[:h]) + judge(part[h:])

    for (i, path, kind, _m), v in zip(muts, judge(muts) if muts else []):
        field = '.'.join('*' if isinstance(k, int) else k for k in path) + ':' + kind
        d = res['by_field'].setdefault(field, [0, 0])
        res['mutants'] += 1
        d[1] += 1
        if v is None:
            res['unevaluable'] += 1
            res['rejected'] += 1
            d[0] += 1
        elif sorted(map(tuple, v)) != sorted(map(tuple, verdicts[i])):
            res['rejected'] += 1
            d[0] += 1
    return res


def validate_traces(module, traces, tag, constants='', timeout=1800, chunk=400, unevaluable=None):
    """Validate implementation traces against spec/<module>.tla.

    The trace module must define `Spec`, read `IOEnv.TRACE_FILE` (JSON array of traces) and print,
    from its POSTCONDITION `Post`, one line  "JSON:<json>"  holding a list with one verdict per
    trace: [] when every clause held on every recorded step, otherwise a list of
    [step, clause] pairs.  Returns (verdicts, states, transitions).
    """
    verdicts, states, trans = [], 0, 0

    def judge(part):
        wd = workdir(tag + '_tr')
        try:
            tf = os.path.join(wd, 'traces.json')
            with open(tf, 'w') as f:
                json.dump(part, f)
            cfg = 'SPECIFICATION Spec\nPOSTCONDITION Post\nCHECK_DEADLOCK FALSE\n' + constants
            r, _ = run(module, cfg, tag + '_tv', workers=1, env={'TRACE_FILE': tf}, timeout=timeout, coverage=False)
            if r.rc != 0 or not r.printed:
                raise TLCError('trace validation run failed (%s):\n%s' % (module, r.stdout[-3000:]))
            v = r.printed[-1]
            if len(v) != len(part):
                raise TLCError('verdict count mismatch %d != %d' % (len(v), len(part)))
            return v, r.distinct, r.generated
        finally:
            shutil.rmtree(wd, ignore_errors=True)

    def judge_split(part):
        """a recorded execution that the specification cannot even evaluate (values outside every modelled range, e.g. 32-bit overflow of a
        wildly wrong weight) is a failed execution, not a machinery failure: the batch is bisected and such a trace gets the verdict
        <<0, unevaluable>> (only when the caller names that clause; otherwise the error is raised as before)"""
        try:
            return judge(part)
        except TLCError:
            if unevaluable is None or os.environ.get('VERIF_NO_SPLIT') == '1':
                raise
            if len(part) == 1:
                return [[[0, unevaluable]]], 0, 0
            h = len(part) // 2
            v1, s1, t1 = judge_split(part[:h])
            v2, s2, t2 = judge_split(part[h:])
            return v1 + v2, s1 + s2, t1 + t2

    for off in range(0, len(traces), chunk):
        v, st_, tr_ = judge_split(traces[off:off + chunk])
        nbad = sum(1 for x in v if any(c == unevaluable for _s, c in x)) if unevaluable else 0
        if nbad and (nbad * 2 > len(v) or len(v) < 4):
            # (nearly) everything un-evaluable: that is the machinery (specification does not parse, TLC missing ...), not the library
            raise TLCError('trace validation failed for %d of %d traces of a batch (%s): machinery failure' % (nbad, len(v), module))
        verdicts += v
        states += st_
        trans += tr_
    if os.environ.get('VERIF_SELFTEST', '1') != '0' and traces:
        import random
        try:
            st = selftest(module, traces, verdicts, tag, constants, random.Random(len(traces)), n=int(os.environ.get('VERIF_SELFTEST_N', '30')))
            if st:
                SELFTESTS.append(st)
        except Exception as ex:      # the self-test never influences a verdict
            SELFTESTS.append({'module': module, 'error': repr(ex)})
    return verdicts, states, trans
